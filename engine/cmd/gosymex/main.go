// gosymex: solver-based checking of /repo's real code (see /verif/DESIGN.md).
//
//	gosymex run    -prop C05 -tier quick
//	gosymex replay /verif/replays/C05-xxxx.json
package main

import (
	"bytes"
	"crypto/sha1"
	"encoding/json"
	"flag"
	"fmt"
	"os"
	"os/exec"
	"path/filepath"
	"sort"
	"strconv"
	"strings"
	"time"

	"verif/engine/symex"
)

const repoPrefix = "github.com/atlassian/escalator"

var pkgPaths = map[string]string{
	"controller": repoPrefix + "/pkg/controller",
	"aws":        repoPrefix + "/pkg/cloudprovider/aws",
	"k8s":        repoPrefix + "/pkg/k8s",
	"cmd":        repoPrefix + "/cmd",
}

var pkgDirs = map[string]string{
	"controller": "pkg/controller",
	"aws":        "pkg/cloudprovider/aws",
	"k8s":        "pkg/k8s",
	"cmd":        "cmd",
}

// package clause of the harness files (cmd is package main)
var pkgNames = map[string]string{"cmd": "main"}

type jobSpec struct {
	Pkg        string  `json:"pkg"`
	Harness    string  `json:"harness"`
	Shapes     [][]int `json:"shapes"`
	TickBound  int     `json:"tick_bound"`
	StepBudget int     `json:"step_budget"`
	MaxPaths   int     `json:"max_paths"`
}

type propSpec struct {
	PanicIsViolation bool      `json:"panic_is_violation"`
	Quick            []jobSpec `json:"quick"`
	Thorough         []jobSpec `json:"thorough"`
	ReachRequired    []string  `json:"reach_required"`
	AssertsRequired  []string  `json:"asserts_required"`
	Assumptions      []string  `json:"assumptions"`
	Outside          []string  `json:"outside_claim"`
	Bounds           string    `json:"bounds"`
}

type knownFinding struct {
	ID       string                 `json:"id"`
	Property string                 `json:"property"`
	Status   string                 `json:"status"` // open | fixed
	Text     string                 `json:"text"`
	Commit   string                 `json:"commit,omitempty"`
	Witness  map[string]interface{} `json:"witness,omitempty"`
}

type replayFile struct {
	Property  string                 `json:"property"`
	Pkg       string                 `json:"pkg"`
	Harness   string                 `json:"harness"`
	Shape     []int                  `json:"shape"`
	Inputs    map[string]interface{} `json:"inputs"`
	KnownOpen []string               `json:"known_open"`
	AssertID  string                 `json:"assert_id"`
	Kind      string                 `json:"kind"`
	Msg       string                 `json:"msg,omitempty"`
	Command   string                 `json:"command"`
}

var (
	verifDir = "/verif"
	repoDir  = "/repo"
)

func main() {
	if len(os.Args) < 2 {
		fmt.Fprintln(os.Stderr, "usage: gosymex run|replay ...")
		os.Exit(2)
	}
	if v := os.Getenv("VERIF_DIR"); v != "" {
		verifDir = v
	}
	if v := os.Getenv("VERIF_REPO"); v != "" {
		repoDir = v
	}
	switch os.Args[1] {
	case "run":
		os.Exit(cmdRun(os.Args[2:]))
	case "replay":
		os.Exit(cmdReplay(os.Args[2:]))
	case "crosscheck":
		os.Exit(cmdCrosscheck(os.Args[2:]))
	default:
		fmt.Fprintln(os.Stderr, "unknown command", os.Args[1])
		os.Exit(2)
	}
}

// buildOverlay maps harness files into the repo's package directories.
func buildOverlay(scratch string) (map[string][]byte, map[string]string, error) {
	ov := map[string][]byte{}
	files := map[string]string{} // virtual -> real path (for go test -overlay)
	for short, dir := range pkgDirs {
		hdir := filepath.Join(verifDir, "harness", short)
		ents, err := os.ReadDir(hdir)
		if err != nil {
			continue
		}
		n := 0
		for _, e := range ents {
			if !strings.HasSuffix(e.Name(), ".go") {
				continue
			}
			data, err := os.ReadFile(filepath.Join(hdir, e.Name()))
			if err != nil {
				return nil, nil, err
			}
			virt := filepath.Join(repoDir, dir, "zz_verif_"+e.Name())
			ov[virt] = data
			files[virt] = filepath.Join(hdir, e.Name())
			n++
		}
		if n == 0 {
			continue
		}
		pkgName := short
		if n, ok := pkgNames[short]; ok {
			pkgName = n
		}
		for _, t := range []struct{ tmpl, out string }{
			{"rt.go.tmpl", "zz_verif_rt.go"},
			{"replay_test.go.tmpl", "zz_verif_replay_test.go"},
		} {
			data, err := os.ReadFile(filepath.Join(verifDir, "harness", "common", t.tmpl))
			if err != nil {
				return nil, nil, err
			}
			data = bytes.ReplaceAll(data, []byte("PKGNAME"), []byte(pkgName))
			virt := filepath.Join(repoDir, dir, t.out)
			real := filepath.Join(scratch, short+"_"+t.out)
			if err := os.WriteFile(real, data, 0o644); err != nil {
				return nil, nil, err
			}
			if !strings.HasSuffix(t.out, "_test.go") {
				ov[virt] = data
			}
			files[virt] = real
		}
	}
	return ov, files, nil
}

type nativeRunner struct {
	scratch string
	bins    map[string]string // pkg short -> test binary
	files   map[string]string
	buildS  float64
}

func (nr *nativeRunner) binary(pkg string) (string, error) {
	if b, ok := nr.bins[pkg]; ok {
		return b, nil
	}
	start := time.Now()
	ovJSON := filepath.Join(nr.scratch, "overlay.json")
	data, _ := json.Marshal(map[string]interface{}{"Replace": nr.files})
	if err := os.WriteFile(ovJSON, data, 0o644); err != nil {
		return "", err
	}
	bin := filepath.Join(nr.scratch, pkg+".test")
	cmd := exec.Command("go", "test", "-tags", "verif", "-overlay", ovJSON, "-vet=off", "-c", "-o", bin, "./"+pkgDirs[pkg])
	cmd.Dir = repoDir
	cmd.Env = append(os.Environ(), "GOFLAGS=-mod=mod", "GOPROXY=off", "GOSUMDB=off", "GOTOOLCHAIN=local")
	out, err := cmd.CombinedOutput()
	nr.buildS += time.Since(start).Seconds()
	if err != nil {
		return "", fmt.Errorf("native build of %s failed: %v\n%s", pkg, err, out)
	}
	nr.bins[pkg] = bin
	return bin, nil
}

type nativeResult struct {
	Failed   []string
	Reached  []string
	Panicked bool
	PanicMsg string
	Done     bool
	Output   string
}

func (nr *nativeRunner) run(rf *replayFile) (*nativeResult, error) {
	bin, err := nr.binary(rf.Pkg)
	if err != nil {
		return nil, err
	}
	path := filepath.Join(nr.scratch, fmt.Sprintf("replay-%d.json", time.Now().UnixNano()))
	data, _ := json.Marshal(rf)
	if err := os.WriteFile(path, data, 0o644); err != nil {
		return nil, err
	}
	defer os.Remove(path)
	cmd := exec.Command("timeout", "300", bin, "-test.run", "^TestVerifReplay$", "-test.count=1", "-test.timeout=280s")
	cmd.Dir = filepath.Join(repoDir, pkgDirs[rf.Pkg])
	cmd.Env = append(os.Environ(), "VERIF_REPLAY="+path)
	out, _ := cmd.CombinedOutput()
	res := &nativeResult{Output: string(out)}
	for _, line := range strings.Split(string(out), "\n") {
		line = strings.TrimSpace(line)
		switch {
		case strings.HasPrefix(line, "VERIF-ASSERT-FAILED id="):
			res.Failed = append(res.Failed, strings.TrimPrefix(line, "VERIF-ASSERT-FAILED id="))
		case strings.HasPrefix(line, "VERIF-REACH id="):
			res.Reached = append(res.Reached, strings.TrimPrefix(line, "VERIF-REACH id="))
		case strings.HasPrefix(line, "VERIF-PANIC"):
			res.Panicked = true
			res.PanicMsg = strings.TrimPrefix(line, "VERIF-PANIC ")
		case line == "VERIF-DONE":
			res.Done = true
		case strings.HasPrefix(line, "panic:") || strings.HasPrefix(line, "fatal error:"):
			res.Panicked = true
			if res.PanicMsg == "" {
				res.PanicMsg = line
			}
		}
	}
	return res, nil
}

func contains(xs []string, x string) bool {
	for _, y := range xs {
		if y == x {
			return true
		}
	}
	return false
}

func loadKnown() ([]knownFinding, error) {
	var out struct {
		Findings []knownFinding `json:"findings"`
	}
	data, err := os.ReadFile(filepath.Join(verifDir, "known_findings.json"))
	if err != nil {
		if os.IsNotExist(err) {
			return nil, nil
		}
		return nil, err
	}
	if err := json.Unmarshal(data, &out); err != nil {
		return nil, err
	}
	return out.Findings, nil
}

func cmdRun(args []string) int {
	fs := flag.NewFlagSet("run", flag.ExitOnError)
	prop := fs.String("prop", "", "property id")
	tier := fs.String("tier", "quick", "quick|thorough")
	workers := fs.Int("workers", 16, "workers")
	only := fs.String("harness", "", "restrict to one harness")
	noReplay := fs.Bool("no-replay", false, "do not replay candidates natively")
	solverLog := fs.String("solver-log", "", "write worker 0 SMT dialogue to this file")
	maxSec := fs.Int("max-seconds", 0, "stop exploring after this many seconds (reported as truncated)")
	noEvidence := fs.Bool("no-evidence", false, "do not write the evidence file")
	fs.Parse(args)
	seed := 0
	if s := os.Getenv("VERIF_SEED"); s != "" {
		seed, _ = strconv.Atoi(s)
	}
	start := time.Now()

	var registry map[string]propSpec
	data, err := os.ReadFile(filepath.Join(verifDir, "harness", "registry.json"))
	if err != nil {
		fmt.Fprintln(os.Stderr, "engine error:", err)
		return 2
	}
	if err := json.Unmarshal(data, &registry); err != nil {
		fmt.Fprintln(os.Stderr, "engine error: registry:", err)
		return 2
	}
	spec, ok := registry[*prop]
	if !ok {
		fmt.Fprintln(os.Stderr, "engine error: unknown property", *prop)
		return 2
	}
	jobs := spec.Quick
	if *tier == "thorough" && len(spec.Thorough) > 0 {
		jobs = spec.Thorough
	}
	known, err := loadKnown()
	if err != nil {
		fmt.Fprintln(os.Stderr, "engine error: known findings:", err)
		return 2
	}
	var knownOpen []string
	for _, k := range known {
		if k.Status == "open" {
			knownOpen = append(knownOpen, k.ID)
		}
	}

	scratch, err := os.MkdirTemp("", "gosymex-")
	if err != nil {
		fmt.Fprintln(os.Stderr, "engine error:", err)
		return 2
	}
	defer os.RemoveAll(scratch)

	overlay, files, err := buildOverlay(scratch)
	if err != nil {
		fmt.Fprintln(os.Stderr, "engine error:", err)
		return 2
	}
	pats := map[string]bool{}
	for _, j := range jobs {
		pats[pkgPaths[j.Pkg]] = true
	}
	var patterns []string
	for p := range pats {
		patterns = append(patterns, p)
	}
	sort.Strings(patterns)
	loadStart := time.Now()
	P, err := symex.Load(repoDir, repoPrefix, overlay, "verif", patterns...)
	if err != nil {
		// A tree that does not compile with the harnesses cannot be judged.
		fmt.Printf("INCONCLUSIVE property=%s load failed: %v\n", *prop, err)
		fmt.Fprintln(os.Stderr, "engine error: load:", err)
		return 2
	}
	loadS := time.Since(loadStart).Seconds()

	var slog *os.File
	if *solverLog != "" {
		slog, _ = os.Create(*solverLog)
		defer slog.Close()
	}
	var deadline time.Time
	if *maxSec > 0 {
		deadline = start.Add(time.Duration(*maxSec) * time.Second)
	}

	type jobOut struct {
		spec jobSpec
		res  *symex.JobResult
	}
	var outs []jobOut
	for _, j := range jobs {
		if *only != "" && j.Harness != *only {
			continue
		}
		shapes := j.Shapes
		if len(shapes) == 0 {
			shapes = [][]int{{}}
		}
		for _, sh := range shapes {
			cfg := symex.JobConfig{
				Harness: j.Harness, Pkg: pkgPaths[j.Pkg], Shape: sh, Workers: *workers,
				SolverKind: "z3-new", TimeoutMs: 20000, StepBudget: j.StepBudget, MaxPaths: j.MaxPaths,
				TickBound: j.TickBound, KnownOpen: knownOpen, PanicIsViol: spec.PanicIsViolation,
				Deadline: deadline,
			}
			if *tier == "thorough" {
				cfg.TimeoutMs = 120000
			}
			if cfg.TickBound == 0 {
				cfg.TickBound = 4
			}
			if slog != nil {
				cfg.SolverLog = slog
			}
			res, err := P.RunJob(cfg)
			if err != nil {
				fmt.Fprintln(os.Stderr, "engine error:", err)
				return 2
			}
			outs = append(outs, jobOut{j, res})
			fmt.Fprintf(os.Stderr, "[%s %s %v] paths=%d ends=%v branches=%d queries=%d solver=%.1fs wall=%.1fs failing=%v incon=%v unsupported=%v panics=%d\n",
				*prop, j.Harness, sh, res.Paths, res.Ends, res.Branches, res.Queries, res.SolverTimeS, res.WallS, res.Failing, res.Inconclusive, res.Unsupported, len(res.Panics))
		}
	}

	// ---- native replay of candidates
	nr := &nativeRunner{scratch: scratch, bins: map[string]string{}, files: files}
	violations := 0
	var violationLines []string
	var inconclusiveLines []string
	knownPrinted := map[string]bool{}
	replayed, reproduced := 0, 0
	validated := 0
	var validationMismatches []string
	type sampleOut struct {
		Harness string                 `json:"harness"`
		Shape   []int                  `json:"shape"`
		Inputs  map[string]interface{} `json:"inputs"`
		Note    string                 `json:"note,omitempty"`
	}
	var samples []sampleOut

	for _, o := range outs {
		byAssert := map[string][]symex.Candidate{}
		var order []string
		for _, c := range o.res.Candidates {
			if _, ok := byAssert[c.AssertID]; !ok {
				order = append(order, c.AssertID)
			}
			byAssert[c.AssertID] = append(byAssert[c.AssertID], c)
		}
		for _, id := range order {
			cands := byAssert[id]
			if *noReplay {
				inconclusiveLines = append(inconclusiveLines, fmt.Sprintf("INCONCLUSIVE property=%s assert=%s harness=%s shape=%v: %d candidate(s), replay disabled", *prop, id, o.spec.Harness, o.res.Shape, len(cands)))
				continue
			}
			found := false
			tried := 0
			for _, c := range cands {
				if tried >= 12 {
					break
				}
				tried++
				rf := &replayFile{Property: *prop, Pkg: o.spec.Pkg, Harness: o.spec.Harness, Shape: o.res.Shape,
					Inputs: c.Model, KnownOpen: knownOpen, AssertID: c.AssertID, Kind: c.Kind, Msg: c.Msg}
				nres, err := nr.run(rf)
				replayed++
				if err != nil {
					fmt.Fprintln(os.Stderr, "engine error:", err)
					return 2
				}
				ok := false
				if c.Kind == "panic" {
					ok = nres.Panicked
				} else {
					ok = contains(nres.Failed, c.AssertID)
				}
				if ok {
					reproduced++
					found = true
					h := sha1.Sum([]byte(fmt.Sprintf("%s|%s|%v|%v", o.spec.Harness, c.AssertID, o.res.Shape, c.Model)))
					name := fmt.Sprintf("%s-%x.json", *prop, h[:5])
					rpath := filepath.Join(verifDir, "replays", name)
					rf.Command = fmt.Sprintf("cd /verif && ./check replay %s", rpath)
					data, _ := json.MarshalIndent(rf, "", " ")
					os.MkdirAll(filepath.Dir(rpath), 0o755)
					os.WriteFile(rpath, data, 0o644)
					line := fmt.Sprintf("VIOLATION property=%s replay=%s", *prop, rpath)
					violationLines = append(violationLines, line)
					fmt.Fprintf(os.Stderr, "  violated: %s (%s) harness=%s shape=%v msg=%s\n", c.AssertID, c.Kind, o.spec.Harness, o.res.Shape, c.Msg)
					violations++
					break
				}
				if d := os.Getenv("VERIF_KEEP_SPURIOUS"); d != "" {
					data, _ := json.MarshalIndent(rf, "", " ")
					os.MkdirAll(d, 0o755)
					os.WriteFile(filepath.Join(d, fmt.Sprintf("%s-%s-%d.json", *prop, c.AssertID, replayed)), data, 0o644)
				}
				if os.Getenv("VERIF_DEBUG") != "" {
					fmt.Fprintf(os.Stderr, "  spurious candidate %s: native failed=%v panicked=%v done=%v\n%s\n", c.AssertID, nres.Failed, nres.Panicked, nres.Done, tail(nres.Output, 20))
				}
			}
			if !found && !*noReplay {
				inconclusiveLines = append(inconclusiveLines, fmt.Sprintf("INCONCLUSIVE property=%s assert=%s harness=%s shape=%v: %d solver candidate(s) did not reproduce natively", *prop, id, o.spec.Harness, o.res.Shape, tried))
			}
		}
		// validate sampled passing paths against the implementation
		for k, m := range o.res.SampleModels {
			s := sampleOut{Harness: o.spec.Harness, Shape: o.res.Shape, Inputs: m}
			if !*noReplay && k < 2 {
				rf := &replayFile{Property: *prop, Pkg: o.spec.Pkg, Harness: o.spec.Harness, Shape: o.res.Shape, Inputs: m, KnownOpen: knownOpen}
				nres, err := nr.run(rf)
				if err != nil {
					fmt.Fprintln(os.Stderr, "engine error:", err)
					return 2
				}
				if nres.Done && !nres.Panicked && len(nres.Failed) == 0 {
					validated++
					s.Note = "native run of the real build agrees: all assertions pass"
				} else {
					validationMismatches = append(validationMismatches, fmt.Sprintf("%s %v: native failed=%v panicked=%v(%s) done=%v", o.spec.Harness, o.res.Shape, nres.Failed, nres.Panicked, nres.PanicMsg, nres.Done))
					s.Note = "native run DISAGREES with the symbolic path"
				}
			}
			if len(samples) < 6 {
				samples = append(samples, s)
			}
		}
	}

	// ---- known findings: replay the witness of each open entry
	for _, k := range known {
		if k.Property != *prop || k.Status != "open" || *noReplay || k.Witness == nil {
			continue
		}
		wdata, _ := json.Marshal(k.Witness)
		var rf replayFile
		json.Unmarshal(wdata, &rf)
		rf.KnownOpen = nil // replay with the finding NOT excused
		nres, err := nr.run(&rf)
		if err != nil {
			fmt.Fprintln(os.Stderr, "engine error:", err)
			return 2
		}
		if contains(nres.Failed, rf.AssertID) || (rf.Kind == "panic" && nres.Panicked) {
			if !knownPrinted[k.ID] {
				fmt.Printf("KNOWN-FINDING: property=%s %s: %s\n", *prop, k.ID, k.Text)
				knownPrinted[k.ID] = true
			}
		} else {
			fmt.Printf("NOTE: known finding %s no longer reproduces on this tree (witness passes)\n", k.ID)
		}
	}

	// ---- aggregate
	agg := struct {
		paths, branches, queries, unknown, solverErr, goStmts int
		solverS                                               float64
		ends, asserts, failing, reach, incon, unsup, panics   map[string]int
		funcs, stubs                                          map[string]bool
		truncated                                             bool
	}{ends: map[string]int{}, asserts: map[string]int{}, failing: map[string]int{}, reach: map[string]int{}, incon: map[string]int{}, unsup: map[string]int{}, panics: map[string]int{}, funcs: map[string]bool{}, stubs: map[string]bool{}}
	var jobSummaries []interface{}
	for _, o := range outs {
		r := o.res
		agg.paths += r.Paths
		agg.branches += r.Branches
		agg.queries += r.Queries
		agg.unknown += r.Unknown
		agg.solverErr += r.SolverErrors
		agg.solverS += r.SolverTimeS
		agg.goStmts += r.GoStmts
		agg.truncated = agg.truncated || r.Truncated
		for k, v := range r.Ends {
			agg.ends[k] += v
		}
		for k, v := range r.Asserts {
			agg.asserts[k] += v
		}
		for k, v := range r.Failing {
			agg.failing[k] += v
		}
		for k, v := range r.Reach {
			agg.reach[k] += v
		}
		for k, v := range r.Inconclusive {
			agg.incon[k] += v
		}
		for k, v := range r.Unsupported {
			agg.unsup[k] += v
		}
		for k, v := range r.Panics {
			agg.panics[k] += v
		}
		for k := range r.Functions {
			agg.funcs[k] = true
		}
		for k := range r.Stubs {
			agg.stubs[k] = true
		}
		jobSummaries = append(jobSummaries, r)
	}

	// vacuity guards
	engineBroken := false
	var vacuity []string
	for _, m := range spec.ReachRequired {
		if agg.reach[m] == 0 {
			vacuity = append(vacuity, "reach marker never hit: "+m)
		}
	}
	for _, a := range spec.AssertsRequired {
		if agg.asserts[a] == 0 {
			vacuity = append(vacuity, "assertion never reached: "+a)
		}
	}
	if *only == "" && len(vacuity) > 0 && !agg.truncated {
		engineBroken = true
	}
	for _, l := range inconclusiveLines {
		fmt.Println(l)
	}
	for k, v := range agg.incon {
		fmt.Printf("INCONCLUSIVE property=%s %s (%d path(s))\n", *prop, k, v)
	}
	for k, v := range agg.unsup {
		fmt.Printf("INCONCLUSIVE property=%s unsupported construct: %s (%d path(s))\n", *prop, k, v)
	}
	if !spec.PanicIsViolation {
		for k, v := range agg.panics {
			fmt.Printf("NOTE property=%s %d path(s) ended in a Go panic (judged by C20, not here): %s\n", *prop, v, firstLine(k))
		}
	}
	if agg.truncated {
		fmt.Printf("INCONCLUSIVE property=%s exploration truncated (path or time limit): reduced bound\n", *prop)
	}
	for _, v := range vacuity {
		fmt.Printf("VACUOUS property=%s %s\n", *prop, v)
	}
	for _, v := range validationMismatches {
		fmt.Printf("ENGINE-MISMATCH property=%s sampled path disagrees with native run: %s\n", *prop, v)
	}
	for _, l := range violationLines {
		fmt.Println(l)
	}

	wall := time.Since(start).Seconds()
	if !*noEvidence {
		funcs := keys(agg.funcs)
		stubsUsed := keys(agg.stubs)
		if len(samples) == 0 {
			samples = append(samples, sampleOut{Note: "no completed path produced a model"})
		}
		ev := map[string]interface{}{
			"property_id": *prop,
			"tier":        *tier,
			"seed":        seed,
			"level":       "model_checking",
			"wall_s":      wall,
			"violations":  violations,
			"assumptions": append(append([]string{}, spec.Assumptions...), "stubs listed in coverage.stubs_used model the environment (DESIGN §1.5)"),
			"coverage": map[string]interface{}{
				"states":                        max1(agg.paths),
				"transitions":                   max1(agg.branches),
				"traces_validated_against_impl": validated + reproduced,
				"samples":                       samples,
				"explanation":                   "bounded symbolic execution of the real SSA of /repo; states = feasible paths explored to completion, transitions = symbolic branch decisions; every assertion instance is an SMT query PC ∧ ¬assert",
				"technique":                     "SSA symbolic execution + SMT (z3 5.1.0), counterexamples replayed natively",
				"functions_encoded":             funcs,
				"stubs_used":                    stubsUsed,
				"bounds":                        spec.Bounds,
				"outside_claim":                 spec.Outside,
				"jobs":                          jobSummaries,
				"path_ends":                     agg.ends,
				"assert_instances":              agg.asserts,
				"failing_instances":             agg.failing,
				"reach_markers":                 agg.reach,
				"queries":                       agg.queries,
				"solver_time_s":                 agg.solverS,
				"unknown":                       agg.unknown,
				"solver_errors":                 agg.solverErr,
				"inconclusive":                  agg.incon,
				"unsupported":                   agg.unsup,
				"panic_paths":                   agg.panics,
				"candidates_replayed":           replayed,
				"candidates_reproduced":         reproduced,
				"vacuity_failures":              vacuity,
				"validation_mismatches":         validationMismatches,
				"load_s":                        loadS,
				"native_build_s":                nr.buildS,
				"solver":                        "z3-new 5.1.0 (-in, push/pop)",
				"truncated":                     agg.truncated,
				"go_statements_not_started":     agg.goStmts,
				"exhaustive":                    !agg.truncated && len(agg.incon) == 0 && len(agg.unsup) == 0,
			},
		}
		data, _ := json.MarshalIndent(ev, "", " ")
		os.MkdirAll(filepath.Join(verifDir, "evidence"), 0o755)
		if err := os.WriteFile(filepath.Join(verifDir, "evidence", *prop+".json"), data, 0o644); err != nil {
			fmt.Fprintln(os.Stderr, "engine error:", err)
			return 2
		}
	}
	fmt.Printf("SUMMARY property=%s tier=%s paths=%d branches=%d queries=%d solver_s=%.1f wall_s=%.1f violations=%d inconclusive=%d validated=%d\n",
		*prop, *tier, agg.paths, agg.branches, agg.queries, agg.solverS, wall, violations, len(agg.incon)+len(agg.unsup)+len(inconclusiveLines), validated)
	if violations > 0 {
		return 1
	}
	if engineBroken || len(validationMismatches) > 0 {
		fmt.Fprintln(os.Stderr, "engine error: vacuity / validation failure (not a property verdict)")
		return 2
	}
	return 0
}

func max1(n int) int {
	if n < 1 {
		return 1
	}
	return n
}

func keys(m map[string]bool) []string {
	out := make([]string, 0, len(m))
	for k := range m {
		out = append(out, k)
	}
	sort.Strings(out)
	return out
}

func firstLine(s string) string {
	if i := strings.IndexByte(s, '\n'); i >= 0 {
		return s[:i]
	}
	return s
}

func tail(s string, n int) string {
	lines := strings.Split(strings.TrimSpace(s), "\n")
	if len(lines) > n {
		lines = lines[len(lines)-n:]
	}
	return strings.Join(lines, "\n")
}

func cmdReplay(args []string) int {
	if len(args) < 1 {
		fmt.Fprintln(os.Stderr, "usage: gosymex replay <file>")
		return 2
	}
	data, err := os.ReadFile(args[0])
	if err != nil {
		fmt.Fprintln(os.Stderr, err)
		return 2
	}
	var rf replayFile
	if err := json.Unmarshal(data, &rf); err != nil {
		fmt.Fprintln(os.Stderr, err)
		return 2
	}
	scratch, err := os.MkdirTemp("", "gosymex-")
	if err != nil {
		fmt.Fprintln(os.Stderr, err)
		return 2
	}
	defer os.RemoveAll(scratch)
	_, files, err := buildOverlay(scratch)
	if err != nil {
		fmt.Fprintln(os.Stderr, err)
		return 2
	}
	nr := &nativeRunner{scratch: scratch, bins: map[string]string{}, files: files}
	res, err := nr.run(&rf)
	if err != nil {
		fmt.Fprintln(os.Stderr, err)
		return 2
	}
	fmt.Print(res.Output)
	bad := false
	if rf.Kind == "panic" {
		bad = res.Panicked
	} else if rf.AssertID != "" {
		bad = contains(res.Failed, rf.AssertID)
	} else {
		bad = len(res.Failed) > 0 || res.Panicked
	}
	if bad {
		fmt.Printf("VIOLATION property=%s replay=%s\n", rf.Property, args[0])
		return 1
	}
	fmt.Println("replay: not reproduced on this tree")
	return 0
}


// cmdCrosscheck re-runs the complete SMT dialogue of one worker (first shape of
// every quick job of the property, at most -paths paths each) through z3 4.8.12
// and cvc5 and compares the check-sat verdict sequences with z3 5.1.0's.
func cmdCrosscheck(args []string) int {
	fs := flag.NewFlagSet("crosscheck", flag.ExitOnError)
	prop := fs.String("prop", "", "property id")
	maxPaths := fs.Int("paths", 150, "paths per job")
	fs.Parse(args)
	var registry map[string]propSpec
	data, err := os.ReadFile(filepath.Join(verifDir, "harness", "registry.json"))
	if err != nil {
		fmt.Fprintln(os.Stderr, err)
		return 2
	}
	json.Unmarshal(data, &registry)
	spec, ok := registry[*prop]
	if !ok {
		fmt.Fprintln(os.Stderr, "unknown property")
		return 2
	}
	scratch, _ := os.MkdirTemp("", "gosymex-x-")
	defer os.RemoveAll(scratch)
	overlay, _, err := buildOverlay(scratch)
	if err != nil {
		fmt.Fprintln(os.Stderr, err)
		return 2
	}
	pats := map[string]bool{}
	for _, j := range spec.Quick {
		pats[pkgPaths[j.Pkg]] = true
	}
	var patterns []string
	for p := range pats {
		patterns = append(patterns, p)
	}
	P, err := symex.Load(repoDir, repoPrefix, overlay, "verif", patterns...)
	if err != nil {
		fmt.Fprintln(os.Stderr, err)
		return 2
	}
	logPath := filepath.Join(scratch, "dialogue.smt2")
	lf, _ := os.Create(logPath)
	known, _ := loadKnown()
	var knownOpen []string
	for _, k := range known {
		if k.Status == "open" {
			knownOpen = append(knownOpen, k.ID)
		}
	}
	for _, j := range spec.Quick {
		sh := []int{}
		if len(j.Shapes) > 0 {
			sh = j.Shapes[0]
		}
		cfg := symex.JobConfig{Harness: j.Harness, Pkg: pkgPaths[j.Pkg], Shape: sh, Workers: 1, SolverKind: "z3-new",
			TimeoutMs: 20000, MaxPaths: *maxPaths, TickBound: 4, KnownOpen: knownOpen, PanicIsViol: spec.PanicIsViolation, SolverLog: lf}
		if _, err := P.RunJob(cfg); err != nil {
			fmt.Fprintln(os.Stderr, err)
			return 2
		}
		// each job starts a fresh solver: separate the dialogues
		fmt.Fprintln(lf, "(reset)")
	}
	lf.Close()
	raw, _ := os.ReadFile(logPath)
	var script []string
	var ref []string
	for _, line := range strings.Split(string(raw), "\n") {
		if strings.HasPrefix(line, "; <- ") {
			v := strings.TrimSpace(strings.TrimPrefix(line, "; <- "))
			if v == "sat" || v == "unsat" || v == "unknown" {
				ref = append(ref, v)
			}
			continue
		}
		script = append(script, line)
	}
	spath := filepath.Join(scratch, "script.smt2")
	os.WriteFile(spath, []byte(strings.Join(script, "\n")+"\n(exit)\n"), 0o644)
	run := func(name string, argv ...string) []string {
		cmd := exec.Command(argv[0], append(argv[1:], spath)...)
		out, _ := cmd.CombinedOutput()
		var res []string
		for _, l := range strings.Split(string(out), "\n") {
			l = strings.TrimSpace(l)
			if l == "sat" || l == "unsat" || l == "unknown" {
				res = append(res, l)
			}
		}
		return res
	}
	bad := 0
	for _, s := range []struct {
		name string
		argv []string
	}{
		{"z3-4.8.12", []string{"z3", "-T:1800", "-t:20000"}},
		{"cvc5-1.0", []string{"cvc5", "--incremental", "--lang=smt2", "--tlimit-per=20000"}},
	} {
		got := run(s.name, s.argv...)
		dis, unk := 0, 0
		n := len(ref)
		if len(got) < n {
			n = len(got)
		}
		for k := 0; k < n; k++ {
			switch {
			case got[k] == "unknown" || ref[k] == "unknown":
				unk++
			case got[k] != ref[k]:
				dis++
			}
		}
		fmt.Printf("CROSSCHECK property=%s solver=%s queries=%d answered=%d disagreements=%d unknown=%d\n", *prop, s.name, len(ref), len(got), dis, unk)
		if dis > 0 || len(got) != len(ref) {
			bad++
		}
	}
	if bad > 0 {
		return 1
	}
	return 0
}
