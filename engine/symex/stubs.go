package symex

// Environment model: native / symbolic stand-ins for library functions that
// are not executed from SSA (DESIGN §1.5), and the harness intrinsics.

import (
	"fmt"
	"go/token"
	"go/types"
	"math"
	"math/big"
	"reflect"
	"strconv"
	"strings"
	"time"
	"unicode/utf8"

	"golang.org/x/tools/go/ssa"
)

type externalFn func(fr *frame, args []value) value

var stubs = map[string]externalFn{}

// time package functions that may be executed from their SSA bodies.
// harnessRedirects: environment-facing callees that a harness package may replace by a
// function of its own (used only when the harness package defines it; reported as a stub).
var harnessRedirects = map[string]string{
	"os.Open": "verifStubOsOpen",
	"github.com/atlassian/escalator/pkg/controller.UnmarshalNodeGroupOptions": "verifStubUnmarshalNodeGroupOptions",
	// informer plumbing (client-go reflectors, goroutines): the harness hands out its fake all-listers
	"github.com/atlassian/escalator/pkg/k8s.NewCachePodWatcher":  "verifStubNewCachePodWatcher",
	"github.com/atlassian/escalator/pkg/k8s.NewCacheNodeWatcher": "verifStubNewCacheNodeWatcher",
	"github.com/atlassian/escalator/pkg/k8s.WaitForSync":         "verifStubWaitForSync",
}

var timeAllowed = map[string]bool{
	"(time.Duration).Seconds":      true,
	"(time.Duration).Minutes":      true,
	"(time.Duration).Hours":        true,
	"(time.Duration).Milliseconds": true,
	"(time.Duration).Microseconds": true,
	"(time.Duration).Nanoseconds":  true,
	"(time.Duration).Abs":          true,
	"(time.Duration).Truncate":     true,
	"(time.Duration).Round":        true,
	"time.lessThanHalf":            true,
	"(*time.Duration).Seconds":     true,
	"time.init":                    true,
}

var unixOffsetNs = new(big.Int).Mul(big.NewInt(62135596800), big.NewInt(1_000_000_000))

const (
	maxI64 = int64(math.MaxInt64)
	minI64 = int64(math.MinInt64)
)

// ---- time model -----------------------------------------------------------

func (i *interpreter) mkTime(ns *Term) value {
	s := zero(i.P.timeT).(structure)
	s[fieldIndex(i.P.timeT, "ext")] = rawInt(ns, types.Int64)
	return s
}

func (i *interpreter) timeNs(v value) *Term {
	s, ok := v.(structure)
	if !ok {
		panic(unsupportedf("time model: unexpected %T", v))
	}
	wall, _, _ := intTerm(s[fieldIndex(i.P.timeT, "wall")])
	if !wall.IsConst() || wall.I.Sign() != 0 {
		panic(unsupported{"time model: Time with non-zero wall field"})
	}
	ext, _, _ := intTerm(s[fieldIndex(i.P.timeT, "ext")])
	return ext
}

func recvTime(a value) value {
	if p, ok := a.(*value); ok {
		if p == nil {
			panic(targetRuntimeError("invalid memory address or nil pointer dereference"))
		}
		return *p
	}
	return a
}

func satI64(d *Term) *Term {
	return Ite(Gt(d, IntC(maxI64)), IntC(maxI64), Ite(Lt(d, IntC(minI64)), IntC(minI64), d))
}

func (p *pathCtx) base() *Term {
	if p.baseSec == nil {
		p.baseSec = p.inputInt("T0", IntC(1_600_000_000), IntC(2_000_000_000))
		p.clockAdv = IntC(0)
	}
	return p.baseSec
}

// nowNs returns the model of a real-clock reading (ns since year 1): base
// second + accumulated sleeps + a non-decreasing sub-2s offset.
func (p *pathCtx) nowNs() *Term {
	b := p.base()
	p.nowSeq++
	e := p.freshVar("now", SInt)
	lo := IntC(0)
	if p.lastNow != nil {
		lo = p.lastNow
	}
	p.solver.Assert(And(Le(lo, e), Lt(e, IntC(2_000_000_000))))
	p.margin = append(p.margin, And(Le(IntC(200_000_000), e), Le(e, IntC(800_000_000))))
	p.lastNow = e
	return Add(Add(Add(Mul(IntC(1_000_000_000), b), p.clockAdv), e), BigC(unixOffsetNs))
}

func (i *interpreter) stubNow(fr *frame, args []value) value { return i.mkTime(i.path.nowNs()) }

func (i *interpreter) clockNow() value {
	if i.path.mockNow != nil {
		return i.path.mockNow
	}
	return i.mkTime(i.path.nowNs())
}

func (i *interpreter) durationArg(v value, why string) int64 {
	return i.concreteInt(v, why)
}

func (i *interpreter) newTimerLike(typeName string, kind string, d value) value {
	tp := i.prog.ImportedPackage("time").Type(typeName).Type()
	s := zero(tp).(structure)
	ch := make(chan value)
	s[fieldIndex(tp, "C")] = ch
	i.path.base()
	i.chanKinds[ch] = &chanModel{kind: kind, period: i.durationArg(d, "timer duration"), created: i.path.clockAdv}
	v := value(s)
	return &v
}

// ---- resource.Quantity model ---------------------------------------------

func (i *interpreter) mkQuantity(v value, scale int32, format value) value {
	qt := i.P.quantityT
	s := zero(qt).(structure)
	amt := s[fieldIndex(qt, "i")].(structure)
	amt[0] = v
	amt[1] = scale
	s[fieldIndex(qt, "Format")] = format
	q := value(s)
	return &q
}

// quantityParts returns (value term, scale) of a *Quantity whose inf.Dec part is nil.
func (i *interpreter) quantityParts(recv value) (*Term, int64) {
	p := recv.(*value)
	if p == nil {
		panic(targetRuntimeError("invalid memory address or nil pointer dereference"))
	}
	qt := i.P.quantityT
	s := (*p).(structure)
	d := s[fieldIndex(qt, "d")].(structure)
	if dp, _ := d[0].(*value); dp != nil {
		panic(unsupported{"resource.Quantity in inf.Dec form"})
	}
	amt := s[fieldIndex(qt, "i")].(structure)
	v, _, _ := intTerm(amt[0])
	return v, asInt64(amt[1])
}

func pow10(k int64) *big.Int { return new(big.Int).Exp(big.NewInt(10), big.NewInt(k), nil) }

// scaledValue models Quantity.ScaledValue(target) for the int64Amount form.
func (i *interpreter) scaledValue(recv value, target int64) value {
	v, s := i.quantityParts(recv)
	switch {
	case s == target:
		return rawInt(v, types.Int64)
	case s > target:
		// positiveScaleInt64: one wrapping multiplication for these exponents; the
		// library hands back the wrapped product (and 0 for the most negative value)
		switch s - target {
		case 1, 2, 3, 6, 9:
		default:
			panic(unsupported{"resource.Quantity scaled up by an exponent other than 1,2,3,6,9"})
		}
		r := i.mkInt(Mul(BigC(pow10(s-target)), v), types.Int64)
		rt, _, _ := intTerm(r)
		return rawInt(Ite(Eq(v, IntC(minI64)), IntC(0), rt), types.Int64)
	default:
		c := BigC(pow10(target - s))
		// rounded away from zero
		return rawInt(Ite(Ge(v, IntC(0)), Neg(eDiv(Neg(v), c)), eDiv(v, c)), types.Int64)
	}
}

// statusOfError returns (Reason, Code) when err is a *apierrors.StatusError, ("", 0) otherwise.
func (i *interpreter) statusOfError(v value) (value, value) {
	e, ok := v.(iface)
	if !ok || e.t == nil {
		return "", int32(0)
	}
	pt, ok := e.t.(*types.Pointer)
	if !ok {
		return "", int32(0)
	}
	nt, ok := pt.Elem().(*types.Named)
	if !ok || nt.Obj().Name() != "StatusError" || nt.Obj().Pkg() == nil || nt.Obj().Pkg().Path() != "k8s.io/apimachinery/pkg/api/errors" {
		return "", int32(0)
	}
	p, _ := e.v.(*value)
	if p == nil {
		return "", int32(0)
	}
	se := (*p).(structure)
	stT := nt.Underlying().(*types.Struct).Field(0).Type() // ErrStatus metav1.Status
	st := se[0].(structure)
	return st[fieldIndex(stT, "Reason")], st[fieldIndex(stT, "Code")]
}

// ---- helpers ---------------------------------------------------------------

func (i *interpreter) callMethod(recv iface, name string) value {
	ms := i.prog.MethodSets.MethodSet(recv.t)
	for k := 0; k < ms.Len(); k++ {
		if ms.At(k).Obj().Name() == name {
			fn := i.prog.MethodValue(ms.At(k))
			return call(i, i.cur, 0, fn, []value{recv.v})
		}
	}
	panic(unsupportedf("no method %s on %s", name, recv.t))
}

// nativeArg renders an interpreter value for native fmt formatting.
func (i *interpreter) nativeArg(v value) interface{} {
	switch v := v.(type) {
	case iface:
		if v.t == nil {
			return nil
		}
		if types.Implements(v.t, errorIface) {
			if p, ok := v.v.(*value); ok && p == nil {
				return "<nil>"
			}
			s := i.callMethod(v, "Error")
			if str, ok := s.(string); ok {
				return fmt.Errorf("%s", str)
			}
			return "<error>"
		}
		return i.nativeArg(v.v)
	case bool, int, int8, int16, int32, int64, uint, uint8, uint16, uint32, uint64, uintptr, float32, float64, string:
		return v
	case symInt, symBool, symFloat, symStr:
		return "‹sym›"
	case *value:
		if v == nil {
			return "<nil>"
		}
		return "<ptr>"
	case []value:
		out := make([]interface{}, len(v))
		for k := range v {
			out[k] = i.nativeArg(v[k])
		}
		return out
	}
	return fmt.Sprintf("<%T>", v)
}

var errorIface = types.Universe.Lookup("error").Type().Underlying().(*types.Interface)

func (i *interpreter) nativeArgs(va value) []interface{} {
	s, _ := va.([]value)
	out := make([]interface{}, len(s))
	for k := range s {
		out[k] = i.nativeArg(s[k])
	}
	return out
}

func toNative(v value, t reflect.Type) reflect.Value {
	if isSym(v) {
		panic(unsupportedf("symbolic argument to native library function (%T)", v))
	}
	switch t.Kind() {
	case reflect.Slice:
		s := v.([]value)
		out := reflect.MakeSlice(t, len(s), len(s))
		for k := range s {
			out.Index(k).Set(toNative(s[k], t.Elem()))
		}
		return out
	default:
		return reflect.ValueOf(v).Convert(t)
	}
}

func (i *interpreter) fromNative(r reflect.Value) value {
	switch r.Kind() {
	case reflect.Slice:
		if r.IsNil() {
			return []value(nil)
		}
		out := make([]value, r.Len())
		for k := range out {
			out[k] = i.fromNative(r.Index(k))
		}
		return out
	case reflect.Interface:
		if r.IsNil() {
			return iface{}
		}
		if e, ok := r.Interface().(error); ok {
			return i.P.newError(e.Error())
		}
		panic(unsupported{"native bridge: interface result"})
	default:
		return r.Interface()
	}
}

func bridge(f interface{}) externalFn {
	rv := reflect.ValueOf(f)
	rt := rv.Type()
	return func(fr *frame, args []value) value {
		in := make([]reflect.Value, len(args))
		for k := range args {
			in[k] = toNative(args[k], rt.In(k))
		}
		out := rv.Call(in)
		switch len(out) {
		case 0:
			return nil
		case 1:
			return fr.i.fromNative(out[0])
		}
		t := make(tuple, len(out))
		for k := range out {
			t[k] = fr.i.fromNative(out[k])
		}
		return t
	}
}

func floatUn(name string, f func(i *interpreter, x *Term) value, native func(float64) float64) externalFn {
	return func(fr *frame, args []value) value {
		if x, ok := args[0].(float64); ok {
			return native(x)
		}
		t, _ := floatTerm(args[0])
		return f(fr.i, t)
	}
}

func noop(fr *frame, args []value) value { return nil }

func init() {
	for k, v := range map[string]externalFn{
		// --- time
		"time.Now": func(fr *frame, a []value) value { return fr.i.stubNow(fr, a) },
		"time.Since": func(fr *frame, a []value) value {
			i := fr.i
			return rawInt(satI64(Sub(i.path.nowNs(), i.timeNs(a[0]))), types.Int64)
		},
		"time.Until": func(fr *frame, a []value) value {
			i := fr.i
			return rawInt(satI64(Sub(i.timeNs(a[0]), i.path.nowNs())), types.Int64)
		},
		"time.Unix": func(fr *frame, a []value) value {
			sec, _, _ := intTerm(a[0])
			nsec, _, _ := intTerm(a[1])
			return fr.i.mkTime(Add(Add(Mul(IntC(1_000_000_000), sec), nsec), BigC(unixOffsetNs)))
		},
		"time.Sleep": func(fr *frame, a []value) value {
			d, _, _ := intTerm(a[0])
			p := fr.i.path
			p.base()
			p.clockAdv = Add(p.clockAdv, Ite(Gt(d, IntC(0)), d, IntC(0)))
			return nil
		},
		"time.ParseDuration": bridge(func(s string) (int64, error) { d, err := time.ParseDuration(s); return int64(d), err }),
		"time.NewTicker": func(fr *frame, a []value) value {
			return fr.i.newTimerLike("Ticker", "ticker", a[0])
		},
		"time.NewTimer": func(fr *frame, a []value) value {
			return fr.i.newTimerLike("Timer", "timer", a[0])
		},
		"(*time.Ticker).Stop": noop,
		"(*time.Timer).Stop":  func(fr *frame, a []value) value { return true },
		"(time.Time).Sub": func(fr *frame, a []value) value {
			i := fr.i
			return rawInt(satI64(Sub(i.timeNs(a[0]), i.timeNs(a[1]))), types.Int64)
		},
		"(time.Time).Add": func(fr *frame, a []value) value {
			i := fr.i
			d, _, _ := intTerm(a[1])
			return i.mkTime(Add(i.timeNs(a[0]), d))
		},
		"(time.Time).Before": func(fr *frame, a []value) value {
			return mkBool(Lt(fr.i.timeNs(a[0]), fr.i.timeNs(a[1])))
		},
		"(time.Time).After": func(fr *frame, a []value) value {
			return mkBool(Gt(fr.i.timeNs(a[0]), fr.i.timeNs(a[1])))
		},
		"(time.Time).Equal": func(fr *frame, a []value) value {
			return mkBool(Eq(fr.i.timeNs(a[0]), fr.i.timeNs(a[1])))
		},
		"(time.Time).Compare": func(fr *frame, a []value) value {
			x, y := fr.i.timeNs(a[0]), fr.i.timeNs(a[1])
			return rawInt(Ite(Lt(x, y), IntC(-1), Ite(Gt(x, y), IntC(1), IntC(0))), types.Int)
		},
		"(time.Time).IsZero": func(fr *frame, a []value) value {
			return mkBool(Eq(fr.i.timeNs(a[0]), IntC(0)))
		},
		"(time.Time).Unix": func(fr *frame, a []value) value {
			return fr.i.mkInt(eDiv(Sub(fr.i.timeNs(a[0]), BigC(unixOffsetNs)), IntC(1_000_000_000)), types.Int64)
		},
		"(time.Time).UnixNano": func(fr *frame, a []value) value {
			return fr.i.mkInt(Sub(fr.i.timeNs(a[0]), BigC(unixOffsetNs)), types.Int64)
		},
		"(time.Time).UTC":    func(fr *frame, a []value) value { return a[0] },
		"(time.Time).Local":  func(fr *frame, a []value) value { return a[0] },
		"(time.Time).Round":  func(fr *frame, a []value) value { return a[0] },
		"(time.Time).String": func(fr *frame, a []value) value { return "‹time›" },
		"(time.Duration).String": func(fr *frame, a []value) value {
			if d, ok := a[0].(int64); ok {
				return time.Duration(d).String()
			}
			return "‹duration›"
		},
		"github.com/stephanos/clock.Now": func(fr *frame, a []value) value { return fr.i.clockNow() },
		"github.com/stephanos/clock.Sleep": func(fr *frame, a []value) value {
			return stubs["time.Sleep"](fr, a)
		},

		// --- math
		"math.Max": func(fr *frame, a []value) value { return fr.i.max(a[0], a[1]) },
		"math.Min": func(fr *frame, a []value) value { return fr.i.min(a[0], a[1]) },
		"math.Ceil": floatUn("Ceil", func(i *interpreter, x *Term) value {
			return mkFloatExact(ToReal(ceilTerm(x)))
		}, math.Ceil),
		"math.Floor": floatUn("Floor", func(i *interpreter, x *Term) value {
			return mkFloatExact(ToReal(Floor(x)))
		}, math.Floor),
		"math.Trunc": floatUn("Trunc", func(i *interpreter, x *Term) value {
			return mkFloatExact(ToReal(truncToInt(x)))
		}, math.Trunc),
		"math.Round": floatUn("Round", func(i *interpreter, x *Term) value {
			half := RatC(big.NewRat(1, 2))
			return mkFloatExact(ToReal(Ite(Ge(x, RatC(new(big.Rat))), Floor(Add(x, half)), Neg(Floor(Add(Neg(x), half))))))
		}, math.Round),
		"math.Abs": floatUn("Abs", func(i *interpreter, x *Term) value {
			return mkFloatExact(Abs(x))
		}, math.Abs),
		"math.IsNaN": func(fr *frame, a []value) value {
			if f, ok := a[0].(float64); ok {
				return math.IsNaN(f)
			}
			return false
		},
		"math.IsInf": func(fr *frame, a []value) value {
			if f, ok := a[0].(float64); ok {
				return math.IsInf(f, int(asInt64(a[1])))
			}
			return false
		},
		"math.Inf":         bridge(math.Inf),
		"math.Float64bits": bridge(math.Float64bits),
		"math.Pow":         bridge(math.Pow),
		"math.Sqrt":        bridge(math.Sqrt),

		// --- fmt / errors
		"fmt.Sprintf": func(fr *frame, a []value) value {
			return fmt.Sprintf(a[0].(string), fr.i.nativeArgs(a[1])...)
		},
		"fmt.Sprint": func(fr *frame, a []value) value {
			s, _ := a[0].([]value)
			if len(s) == 1 {
				if itf, ok := s[0].(iface); ok {
					if si, ok := itf.v.(symInt); ok {
						return symStr{si.t}
					}
					if ss, ok := itf.v.(symStr); ok {
						return ss
					}
				}
			}
			return fmt.Sprint(fr.i.nativeArgs(a[0])...)
		},
		"fmt.Sprintln": func(fr *frame, a []value) value { return fmt.Sprintln(fr.i.nativeArgs(a[0])...) },
		"fmt.Errorf": func(fr *frame, a []value) value {
			return fr.i.P.newError(fmt.Sprintf(strings.ReplaceAll(a[0].(string), "%w", "%v"), fr.i.nativeArgs(a[1])...))
		},
		"fmt.Println": noop, "fmt.Printf": noop, "fmt.Print": noop, "fmt.Fprintf": noop, "fmt.Fprintln": noop,
		"github.com/pkg/errors.New": func(fr *frame, a []value) value { return fr.i.P.newError(a[0].(string)) },
		"github.com/pkg/errors.Errorf": func(fr *frame, a []value) value {
			return fr.i.P.newError(fmt.Sprintf(a[0].(string), fr.i.nativeArgs(a[1])...))
		},
		"github.com/pkg/errors.Wrap": func(fr *frame, a []value) value {
			e := a[0].(iface)
			if e.t == nil {
				return iface{}
			}
			return fr.i.P.newError(fmt.Sprintf("%s: %v", a[1].(string), fr.i.nativeArg(e)))
		},
		"github.com/pkg/errors.Wrapf": func(fr *frame, a []value) value {
			e := a[0].(iface)
			if e.t == nil {
				return iface{}
			}
			return fr.i.P.newError(fmt.Sprintf(a[1].(string), fr.i.nativeArgs(a[2])...) + ": " + fmt.Sprint(fr.i.nativeArg(e)))
		},
		"github.com/pkg/errors.WithStack": func(fr *frame, a []value) value { return a[0] },

		// --- strconv
		"strconv.ParseInt": func(fr *frame, a []value) value {
			if s, ok := a[0].(symStr); ok {
				return tuple{fr.i.mkInt(s.dec, types.Int64), iface{}}
			}
			v, err := strconv.ParseInt(a[0].(string), int(asInt64(a[1])), int(asInt64(a[2])))
			if err != nil {
				return tuple{v, fr.i.P.newError(err.Error())}
			}
			return tuple{v, iface{}}
		},
		"strconv.Atoi": func(fr *frame, a []value) value {
			if s, ok := a[0].(symStr); ok {
				return tuple{fr.i.mkInt(s.dec, types.Int), iface{}}
			}
			v, err := strconv.Atoi(a[0].(string))
			if err != nil {
				return tuple{v, fr.i.P.newError(err.Error())}
			}
			return tuple{v, iface{}}
		},
		"strconv.FormatInt": func(fr *frame, a []value) value {
			if s, ok := a[0].(symInt); ok {
				if asInt64(a[1]) != 10 {
					panic(unsupported{"FormatInt of symbolic value in base != 10"})
				}
				return symStr{s.t}
			}
			return strconv.FormatInt(asInt64(a[0]), int(asInt64(a[1])))
		},
		"strconv.Itoa": func(fr *frame, a []value) value {
			if s, ok := a[0].(symInt); ok {
				return symStr{s.t}
			}
			return strconv.Itoa(int(asInt64(a[0])))
		},
		"strconv.Quote":      bridge(strconv.Quote),
		"strconv.ParseBool":  bridge(strconv.ParseBool),
		"strconv.FormatBool": bridge(strconv.FormatBool),

		// --- strings (native on concrete values)
		"strings.Split":                  bridge(strings.Split),
		"strings.SplitN":                 bridge(strings.SplitN),
		"strings.Join":                   bridge(strings.Join),
		"strings.Contains":               bridge(strings.Contains),
		"strings.HasPrefix":              bridge(strings.HasPrefix),
		"strings.HasSuffix":              bridge(strings.HasSuffix),
		"strings.Index":                  bridge(strings.Index),
		"strings.LastIndex":              bridge(strings.LastIndex),
		"strings.IndexByte":              bridge(strings.IndexByte),
		"strings.TrimSpace":              bridge(strings.TrimSpace),
		"strings.TrimPrefix":             bridge(strings.TrimPrefix),
		"strings.TrimSuffix":             bridge(strings.TrimSuffix),
		"strings.Trim":                   bridge(strings.Trim),
		"strings.ToLower":                bridge(strings.ToLower),
		"strings.ToUpper":                bridge(strings.ToUpper),
		"strings.Fields":                 bridge(strings.Fields),
		"strings.EqualFold":              bridge(strings.EqualFold),
		"strings.Repeat":                 bridge(strings.Repeat),
		"strings.Replace":                bridge(strings.Replace),
		"strings.ReplaceAll":             bridge(strings.ReplaceAll),
		"strings.Count":                  bridge(strings.Count),
		"strings.Cut":                    bridge(func(s, sep string) (string, string, bool) { return strings.Cut(s, sep) }),
		"strings.Compare":                bridge(strings.Compare),
		"unicode/utf8.RuneCountInString": bridge(utf8.RuneCountInString),

		// --- sync / runtime
		"(*sync.Mutex).Lock":      noop,
		"(*sync.Mutex).Unlock":    noop,
		"(*sync.Mutex).TryLock":   func(fr *frame, a []value) value { return true },
		"(*sync.RWMutex).Lock":    noop,
		"(*sync.RWMutex).Unlock":  noop,
		"(*sync.RWMutex).RLock":   noop,
		"(*sync.RWMutex).RUnlock": noop,
		"runtime.Gosched":         noop,
		"os.Exit":                 func(fr *frame, a []value) value { panic(exitPanic(asInt64(a[0]))) },
		"os.Getenv":               func(fr *frame, a []value) value { return "" },

		// --- resource.Quantity
		"k8s.io/apimachinery/pkg/api/resource.NewQuantity": func(fr *frame, a []value) value {
			return fr.i.mkQuantity(a[0], 0, a[1])
		},
		"k8s.io/apimachinery/pkg/api/resource.NewMilliQuantity": func(fr *frame, a []value) value {
			return fr.i.mkQuantity(a[0], -3, a[1])
		},
		"k8s.io/apimachinery/pkg/api/resource.NewScaledQuantity": func(fr *frame, a []value) value {
			return fr.i.mkQuantity(a[0], int32(asInt64(a[1])), "DecimalSI")
		},
		"(*k8s.io/apimachinery/pkg/api/resource.Quantity).MilliValue": func(fr *frame, a []value) value {
			return fr.i.scaledValue(a[0], -3)
		},
		"(*k8s.io/apimachinery/pkg/api/resource.Quantity).Value": func(fr *frame, a []value) value {
			return fr.i.scaledValue(a[0], 0)
		},
		"(*k8s.io/apimachinery/pkg/api/resource.Quantity).ScaledValue": func(fr *frame, a []value) value {
			return fr.i.scaledValue(a[0], asInt64(a[1]))
		},
		"(*k8s.io/apimachinery/pkg/api/resource.Quantity).IsZero": func(fr *frame, a []value) value {
			v, _ := fr.i.quantityParts(a[0])
			return mkBool(Eq(v, IntC(0)))
		},
		"(*k8s.io/apimachinery/pkg/api/resource.Quantity).Sign": func(fr *frame, a []value) value {
			v, _ := fr.i.quantityParts(a[0])
			return rawInt(Ite(Lt(v, IntC(0)), IntC(-1), Ite(Gt(v, IntC(0)), IntC(1), IntC(0))), types.Int)
		},
		"(*k8s.io/apimachinery/pkg/api/resource.Quantity).String": func(fr *frame, a []value) value {
			return "‹quantity›"
		},
		"k8s.io/apimachinery/pkg/labels.Everything": func(fr *frame, a []value) value { return iface{} },
		// apierrors classify errors through errors.As (reflection): read the *StatusError directly
		"k8s.io/apimachinery/pkg/api/errors.reasonAndCodeForError": func(fr *frame, a []value) value {
			r, c := fr.i.statusOfError(a[0])
			return tuple{r, c}
		},
		"k8s.io/apimachinery/pkg/api/errors.ReasonForError": func(fr *frame, a []value) value {
			r, _ := fr.i.statusOfError(a[0])
			return r
		},
		// errors.As / errors.Is walk the Unwrap chain; the library versions go through reflection
		"errors.As": func(fr *frame, a []value) value {
			tgt, ok := a[1].(iface)
			if !ok || tgt.t == nil {
				panic(targetPanic{"errors: target cannot be nil"})
			}
			pt, ok := tgt.t.Underlying().(*types.Pointer)
			if !ok {
				panic(targetPanic{"errors: target must be a non-nil pointer"})
			}
			elem := pt.Elem()
			cur, _ := a[0].(iface)
			for depth := 0; cur.t != nil && depth < 16; depth++ {
				match := false
				if it, isIface := elem.Underlying().(*types.Interface); isIface {
					match = types.Implements(cur.t, it)
				} else {
					match = types.Identical(cur.t, elem)
				}
				if match {
					cell := tgt.v.(*value)
					if _, isIface := elem.Underlying().(*types.Interface); isIface {
						*cell = cur
					} else {
						*cell = cur.v
					}
					return true
				}
				next, ok := fr.i.unwrapError(fr, cur)
				if !ok {
					break
				}
				cur = next
			}
			return false
		},
		"errors.Is": func(fr *frame, a []value) value {
			cur, _ := a[0].(iface)
			target, _ := a[1].(iface)
			for depth := 0; depth < 16; depth++ {
				if cur.t == nil {
					return target.t == nil
				}
				if target.t != nil && types.Identical(cur.t, target.t) {
					if _, isPtr := cur.t.Underlying().(*types.Pointer); isPtr && cur.v == target.v {
						return true
					}
				}
				next, ok := fr.i.unwrapError(fr, cur)
				if !ok {
					break
				}
				cur = next
			}
			return false
		},
	} {
		stubs[k] = v
	}
}

// ---- harness intrinsics -----------------------------------------------------

type intrinsicFn func(i *interpreter, args []value) value

func argBool(v value) *Term {
	t, ok := boolTerm(v)
	if !ok {
		panic(fmt.Sprintf("intrinsic: expected bool, got %T", v))
	}
	return t
}

func argInt(v value) *Term {
	t, _, ok := intTerm(v)
	if !ok {
		panic(fmt.Sprintf("intrinsic: expected integer, got %T", v))
	}
	return t
}

var intrinsics = map[string]intrinsicFn{
	"verifInt": func(i *interpreter, a []value) value {
		name := a[0].(string)
		if cv, ok := i.path.job.cfg.Concrete[name]; i.path.job.cfg.Concrete != nil {
			if !ok {
				return asInt64(a[1])
			}
			return concreteJSONInt(cv)
		}
		return rawInt(i.path.inputInt(name, argInt(a[1]), argInt(a[2])), types.Int64)
	},
	"verifBool": func(i *interpreter, a []value) value {
		name := a[0].(string)
		if cv, ok := i.path.job.cfg.Concrete[name]; i.path.job.cfg.Concrete != nil {
			b, _ := cv.(bool)
			return ok && b
		}
		t, _ := i.path.input(name, SBool)
		return mkBool(t)
	},
	"verifChoice": func(i *interpreter, a []value) value {
		name := a[0].(string)
		n := asInt64(a[1])
		if cv, ok := i.path.job.cfg.Concrete[name]; i.path.job.cfg.Concrete != nil {
			if !ok {
				return 0
			}
			return int(concreteJSONInt(cv))
		}
		if v, ok := i.path.choices[name]; ok {
			return v
		}
		t := i.path.inputInt(name, IntC(0), IntC(n-1))
		v := int(i.path.concretize(t, "verifChoice "+name).Int64())
		i.path.choices[name] = v
		return v
	},
	"verifConcrete": func(i *interpreter, a []value) value {
		return i.concreteInt(a[0], "verifConcrete")
	},
	"verifShape": func(i *interpreter, a []value) value {
		k := int(asInt64(a[0]))
		sh := i.path.job.cfg.Shape
		if k < 0 || k >= len(sh) {
			return 0
		}
		return sh[k]
	},
	"verifAssert": func(i *interpreter, a []value) value {
		i.path.checkAssert(a[0].(string), argBool(a[1]))
		return nil
	},
	"verifAssume": func(i *interpreter, a []value) value {
		c := argBool(a[0])
		if !c.IsConst() {
			if i.path.solver.CheckWith(c) == Unsat {
				panic(pathEnd{"infeasible", "assume"})
			}
		}
		i.path.assume(c)
		return nil
	},
	"verifPrefer": func(i *interpreter, a []value) value {
		c := argBool(a[0])
		if !c.IsConst() {
			i.path.margin = append(i.path.margin, c)
		}
		return nil
	},
	"verifReach": func(i *interpreter, a []value) value {
		i.path.reach[a[0].(string)] = true
		return nil
	},
	"verifReachIf": func(i *interpreter, a []value) value {
		id := a[0].(string)
		if i.path.reach[id] {
			return nil
		}
		c := argBool(a[1])
		if c.IsConst() {
			if c.B {
				i.path.reach[id] = true
			}
			return nil
		}
		if i.path.job.reached(id) {
			return nil
		}
		if i.path.solver.CheckWith(c) == Sat {
			i.path.reach[id] = true
		}
		return nil
	},
	"verifAnd":     func(i *interpreter, a []value) value { return mkBool(And(argBool(a[0]), argBool(a[1]))) },
	"verifOr":      func(i *interpreter, a []value) value { return mkBool(Or(argBool(a[0]), argBool(a[1]))) },
	"verifNot":     func(i *interpreter, a []value) value { return mkBool(Not(argBool(a[0]))) },
	"verifImplies": func(i *interpreter, a []value) value { return mkBool(Implies(argBool(a[0]), argBool(a[1]))) },
	"verifIte": func(i *interpreter, a []value) value {
		return rawInt(Ite(argBool(a[0]), argInt(a[1]), argInt(a[2])), types.Int64)
	},
	"verifKnown": func(i *interpreter, a []value) value {
		if i.path.job.isKnownOpen(a[0].(string)) {
			return mkBool(argBool(a[1]))
		}
		return false
	},
	"verifNowUnix": func(i *interpreter, a []value) value {
		if i.path.job.cfg.Concrete != nil {
			return int64(1_700_000_000)
		}
		return rawInt(i.path.base(), types.Int64)
	},
	"verifClockNanos": func(i *interpreter, a []value) value {
		// a reading of the real clock (Unix ns), ordered with every other reading of the path
		return rawInt(Sub(i.path.nowNs(), BigC(unixOffsetNs)), types.Int64)
	},
	"verifSleepSeconds": func(i *interpreter, a []value) value {
		p := i.path
		p.base()
		p.clockAdv = Add(p.clockAdv, Mul(IntC(1_000_000_000), argInt(a[0])))
		return nil
	},
	"verifFreezeClock": func(i *interpreter, a []value) value {
		ns := Add(Add(Mul(IntC(1_000_000_000), argInt(a[0])), argInt(a[1])), BigC(unixOffsetNs))
		i.path.mockNow = i.mkTime(ns)
		return nil
	},
	"verifUnfreezeClock": func(i *interpreter, a []value) value {
		i.path.mockNow = nil
		return nil
	},
	"verifIsSymbolic": func(i *interpreter, a []value) value { return true },
	"verifNote":       func(i *interpreter, a []value) value { return nil },
}

func concreteJSONInt(v interface{}) int64 {
	switch v := v.(type) {
	case float64:
		return int64(v)
	case int64:
		return v
	case int:
		return int64(v)
	case string:
		n, _ := strconv.ParseInt(v, 10, 64)
		return n
	case bool:
		if v {
			return 1
		}
		return 0
	}
	return 0
}

func (i *interpreter) intrinsic(fn *ssa.Function) intrinsicFn {
	if fn.Pkg == nil || fn.Signature.Recv() != nil || !strings.HasPrefix(fn.Name(), "verif") {
		return nil
	}
	if !i.P.isRepoPkg(fn.Pkg.Pkg.Path()) {
		return nil
	}
	return intrinsics[fn.Name()]
}

func intrinsicCatchFatal(i *interpreter, a []value) (res value) {
	// runs the closure; a process exit (log.Fatal*, os.Exit) inside it ends the closure
	// only, without running deferred calls, and is reported to the harness
	defer func() {
		if r := recover(); r != nil {
			if _, ok := r.(exitPanic); ok {
				res = true
				return
			}
			panic(r)
		}
	}()
	saved := i.cur
	call(i, saved, token.NoPos, a[0], nil)
	i.cur = saved
	return false
}

func init() { intrinsics["verifCatchFatal"] = intrinsicCatchFatal }


// unwrapError calls err.Unwrap() error when the dynamic type has such a method.
func (i *interpreter) unwrapError(fr *frame, err iface) (iface, bool) {
	fn := i.prog.LookupMethod(err.t, nil, "Unwrap")
	if fn == nil || fn.Signature.Results().Len() != 1 {
		return iface{}, false
	}
	if _, isIface := fn.Signature.Results().At(0).Type().Underlying().(*types.Interface); !isIface {
		return iface{}, false
	}
	r := call(i, fr, token.NoPos, fn, []value{err.v})
	next, ok := r.(iface)
	return next, ok && next.t != nil
}
