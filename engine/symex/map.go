package symex

// Insertion-ordered map: iteration order must be deterministic so that
// re-execution follows the same decisions (Go randomises; no property here
// depends on the order).

import "go/types"

type omap struct {
	keyType types.Type
	basic   bool
	keys    []value
	vals    []value
	dead    []bool
	idx     map[value]int
	live    int
}

func isBasicKey(t types.Type) bool {
	switch t := t.(type) {
	case *types.Basic, *types.Chan, *types.Pointer:
		return true
	case *types.Named, *types.Alias:
		return isBasicKey(t.Underlying())
	}
	return false
}

func makeMap(kt types.Type) value {
	m := &omap{keyType: kt, basic: isBasicKey(kt)}
	if m.basic {
		m.idx = map[value]int{}
	}
	return m
}

func (m *omap) find(k value) int {
	if m == nil {
		return -1
	}
	if m.basic {
		if i, ok := m.idx[k]; ok {
			return i
		}
		return -1
	}
	for i, kk := range m.keys {
		if !m.dead[i] && equals(m.keyType, kk, k) {
			return i
		}
	}
	return -1
}

func (m *omap) lookup(k value) (value, bool) {
	if i := m.find(k); i >= 0 {
		return m.vals[i], true
	}
	return nil, false
}

func (m *omap) insert(k, v value) {
	if i := m.find(k); i >= 0 {
		m.vals[i] = v
		return
	}
	m.keys = append(m.keys, k)
	m.vals = append(m.vals, v)
	m.dead = append(m.dead, false)
	if m.basic {
		m.idx[k] = len(m.keys) - 1
	}
	m.live++
}

func (m *omap) delete(k value) {
	if i := m.find(k); i >= 0 {
		m.dead[i] = true
		m.vals[i] = nil
		if m.basic {
			delete(m.idx, k)
		}
		m.live--
	}
}

func (m *omap) len() int {
	if m == nil {
		return 0
	}
	return m.live
}

type omapIter struct {
	m *omap
	i int
}

func (it *omapIter) next() tuple {
	if it.m != nil {
		for it.i < len(it.m.keys) {
			i := it.i
			it.i++
			if !it.m.dead[i] {
				return tuple{true, it.m.keys[i], it.m.vals[i]}
			}
		}
	}
	return tuple{false, nil, nil}
}
