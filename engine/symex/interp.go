// Copyright 2013 The Go Authors. All rights reserved.
// Use of this source code is governed by a BSD-style
// license that can be found in the LICENSE file (LICENSE.x-tools).

// Package symex is a symbolic executor for Go SSA, derived from
// golang.org/x/tools/go/ssa/interp v0.29.0.  Heap shape is concrete, scalar
// leaves may be SMT terms; branching on a symbolic condition consults the
// exploration driver (re-execution DFS, see explore.go).
package symex

import (
	"fmt"
	"go/token"
	"go/types"
	"os"
	"runtime"
	"slices"
	"strings"

	"golang.org/x/tools/go/ssa"
)

type continuation int

const (
	kNext continuation = iota
	kReturn
	kJump
)

func mustDeref(t types.Type) types.Type {
	if p, ok := t.Underlying().(*types.Pointer); ok {
		return p.Elem()
	}
	panic(fmt.Sprintf("mustDeref: %s is not a pointer", t))
}

// State of one path execution.
type interpreter struct {
	P          *Program
	prog       *ssa.Program
	globals    map[*ssa.Global]*value
	path       *pathCtx
	funcsSeen  map[string]bool
	stubsSeen  map[string]bool
	cur        *frame
	chanKinds  map[interface{}]*chanModel
	panicNoted bool
}

type chanModel struct {
	kind    string // "ticker" or "timer"
	period  int64  // ns
	fired   int
	created *Term // modelled clock advance when the timer was created
}

type deferred struct {
	fn    value
	args  []value
	instr *ssa.Defer
	tail  *deferred
}

type frame struct {
	i                *interpreter
	caller           *frame
	fn               *ssa.Function
	block, prevBlock *ssa.BasicBlock
	env              map[ssa.Value]value // dynamic values of SSA variables
	locals           []value
	defers           *deferred
	result           value
	panicking        bool
	panic            interface{}
	phitemps         []value // temporaries for parallel phi assignment
	curInstr         ssa.Instruction
}

func (i *interpreter) where() string {
	var b strings.Builder
	n := 0
	for fr := i.cur; fr != nil && n < 12; fr = fr.caller {
		pos := token.NoPos
		if fr.curInstr != nil {
			pos = fr.curInstr.Pos()
		}
		fmt.Fprintf(&b, "%s%s\n     ", fr.fn, loc(i.prog.Fset, pos))
		n++
	}
	return b.String()
}

func (i *interpreter) global(g *ssa.Global) *value {
	if r, ok := i.globals[g]; ok {
		return r
	}
	cell := zero(mustDeref(g.Type()))
	i.globals[g] = &cell
	return &cell
}

func (fr *frame) get(key ssa.Value) value {
	switch key := key.(type) {
	case nil:
		// Hack; simplifies handling of optional attributes
		// such as ssa.Slice.{Low,High}.
		return nil
	case *ssa.Function, *ssa.Builtin:
		return key
	case *ssa.Const:
		return constValue(key)
	case *ssa.Global:
		return fr.i.global(key)
	}
	if r, ok := fr.env[key]; ok {
		return r
	}
	panic(fmt.Sprintf("get: no value for %T: %v", key, key.Name()))
}

// runDefer runs a deferred call d.
// It always returns normally, but may set or clear fr.panic.
func (fr *frame) runDefer(d *deferred) {
	var ok bool
	defer func() {
		if !ok {
			// Deferred call created a new state of panic.
			fr.panicking = true
			fr.panic = recover()
		}
	}()
	call(fr.i, fr, d.instr.Pos(), d.fn, d.args)
	ok = true
}

// runDefers executes fr's deferred function calls in LIFO order.
func (fr *frame) runDefers() {
	for d := fr.defers; d != nil; d = d.tail {
		fr.runDefer(d)
	}
	fr.defers = nil
	if fr.panicking {
		panic(fr.panic) // new panic, or still panicking
	}
}

func lookupMethod(i *interpreter, typ types.Type, meth *types.Func) *ssa.Function {
	return i.prog.LookupMethod(typ, meth.Pkg(), meth.Name())
}

func isControlPanic(r interface{}) bool {
	switch r.(type) {
	case pathEnd, unsupported, exitPanic:
		return true
	}
	return false
}

// cond evaluates an If condition, forking on symbolic values.
func (fr *frame) cond(v value) bool {
	switch v := v.(type) {
	case bool:
		return v
	case symBool:
		return fr.i.path.branch(v.t)
	}
	panic(fmt.Sprintf("cond: unexpected %T", v))
}

// concreteInt returns a concrete int64 for v, forking over feasible values
// when v is symbolic.
func (i *interpreter) concreteInt(v value, why string) int64 {
	if s, ok := v.(symInt); ok {
		b := i.path.concretize(s.t, why)
		if !b.IsInt64() {
			panic(unsupportedf("%s: value out of int64", why))
		}
		return b.Int64()
	}
	return asInt64(v)
}

// visitInstr interprets a single ssa.Instruction within the activation
// record frame.  It returns a continuation value indicating where to
// read the next instruction from.
func visitInstr(fr *frame, instr ssa.Instruction) continuation {
	i := fr.i
	fr.curInstr = instr
	i.path.steps++
	if i.path.steps > i.path.job.cfg.StepBudget {
		panic(pathEnd{"budget", "step budget exceeded"})
	}
	switch instr := instr.(type) {
	case *ssa.DebugRef:
		// no-op

	case *ssa.UnOp:
		fr.env[instr] = i.unop(instr, fr.get(instr.X))

	case *ssa.BinOp:
		fr.env[instr] = i.binop(instr.Op, instr.X.Type(), fr.get(instr.X), fr.get(instr.Y))

	case *ssa.Call:
		if instr.Call.Method != nil {
			if pkg := instr.Call.Method.Pkg(); pkg != nil && i.P.isSinkPkg(pkg.Path()) {
				// logging / metrics interface method: no-op
				fr.env[instr] = zeroResult(instr.Call.Signature())
				break
			}
		}
		fn, args := prepareCall(fr, &instr.Call)
		fr.env[instr] = call(fr.i, fr, instr.Pos(), fn, args)

	case *ssa.ChangeInterface:
		fr.env[instr] = fr.get(instr.X)

	case *ssa.ChangeType:
		fr.env[instr] = fr.get(instr.X) // (can't fail)

	case *ssa.Convert:
		fr.env[instr] = i.conv(instr.Type(), instr.X.Type(), fr.get(instr.X))

	case *ssa.SliceToArrayPointer:
		fr.env[instr] = sliceToArrayPointer(instr.Type(), instr.X.Type(), fr.get(instr.X))

	case *ssa.MakeInterface:
		fr.env[instr] = iface{t: instr.X.Type(), v: fr.get(instr.X)}

	case *ssa.Extract:
		fr.env[instr] = fr.get(instr.Tuple).(tuple)[instr.Index]

	case *ssa.Slice:
		lo, hi, max := fr.get(instr.Low), fr.get(instr.High), fr.get(instr.Max)
		if isSym(lo) {
			lo = int(i.concreteInt(lo, "slice bound"))
		}
		if isSym(hi) {
			hi = int(i.concreteInt(hi, "slice bound"))
		}
		if isSym(max) {
			max = int(i.concreteInt(max, "slice bound"))
		}
		fr.env[instr] = slice(fr.get(instr.X), lo, hi, max)

	case *ssa.Return:
		switch len(instr.Results) {
		case 0:
		case 1:
			fr.result = fr.get(instr.Results[0])
		default:
			var res []value
			for _, r := range instr.Results {
				res = append(res, fr.get(r))
			}
			fr.result = tuple(res)
		}
		fr.block = nil
		return kReturn

	case *ssa.RunDefers:
		fr.runDefers()

	case *ssa.Panic:
		panic(targetPanic{fr.get(instr.X)})

	case *ssa.Send:
		panic(unsupported{"channel send"})

	case *ssa.Store:
		store(mustDeref(instr.Addr.Type()), fr.get(instr.Addr).(*value), fr.get(instr.Val))

	case *ssa.If:
		succ := 1
		if fr.cond(fr.get(instr.Cond)) {
			succ = 0
		}
		fr.prevBlock, fr.block = fr.block, fr.block.Succs[succ]
		return kJump

	case *ssa.Jump:
		fr.prevBlock, fr.block = fr.block, fr.block.Succs[0]
		return kJump

	case *ssa.Defer:
		fn, args := prepareCall(fr, &instr.Call)
		defers := &fr.defers
		if into := fr.get(instr.DeferStack); into != nil {
			defers = into.(**deferred)
		}
		*defers = &deferred{
			fn:    fn,
			args:  args,
			instr: instr,
			tail:  *defers,
		}

	case *ssa.Go:
		// goroutines are not started (recorded); see DESIGN §1.5
		i.path.goStmts++

	case *ssa.MakeChan:
		fr.env[instr] = make(chan value, asInt64(fr.get(instr.Size)))

	case *ssa.Alloc:
		var addr *value
		if instr.Heap {
			// new
			addr = new(value)
			fr.env[instr] = addr
		} else {
			// local
			addr = fr.env[instr].(*value)
		}
		*addr = zero(mustDeref(instr.Type()))

	case *ssa.MakeSlice:
		lenV, capV := fr.get(instr.Len), fr.get(instr.Cap)
		n := i.concreteInt(lenV, "make: slice length")
		var c int64
		if s, ok := capV.(symInt); ok {
			// capacity is not observable apart from the negative/oversize
			// panic: fork on that, then allocate len elements.
			if i.path.branch(Or(Lt(s.t, IntC(n)), Gt(s.t, IntC(1<<47)))) {
				panic(targetRuntimeError("makeslice: cap out of range"))
			}
			c = n
		} else {
			c = asInt64(capV)
		}
		if n < 0 || n > 1<<24 {
			panic(targetRuntimeError("makeslice: len out of range"))
		}
		if c < n || c > 1<<47 {
			panic(targetRuntimeError("makeslice: cap out of range"))
		}
		if c > 1<<16 {
			c = n // do not really allocate huge capacities
		}
		slice := make([]value, c)
		tElt := instr.Type().Underlying().(*types.Slice).Elem()
		for i := range slice {
			slice[i] = zero(tElt)
		}
		fr.env[instr] = slice[:n]

	case *ssa.MakeMap:
		fr.env[instr] = makeMap(instr.Type().Underlying().(*types.Map).Key())

	case *ssa.Range:
		fr.env[instr] = rangeIter(fr.get(instr.X), instr.X.Type())

	case *ssa.Next:
		fr.env[instr] = fr.get(instr.Iter).(iter).next()

	case *ssa.FieldAddr:
		p := fr.get(instr.X).(*value)
		if p == nil {
			panic(targetRuntimeError("invalid memory address or nil pointer dereference"))
		}
		fr.env[instr] = &(*p).(structure)[instr.Field]

	case *ssa.Field:
		fr.env[instr] = fr.get(instr.X).(structure)[instr.Field]

	case *ssa.IndexAddr:
		x := fr.get(instr.X)
		idx := i.concreteInt(fr.get(instr.Index), "index")
		switch x := x.(type) {
		case []value:
			if idx < 0 || idx >= int64(len(x)) {
				panic(targetRuntimeError(fmt.Sprintf("index out of range [%d] with length %d", idx, len(x))))
			}
			fr.env[instr] = &x[idx]
		case *value: // *array
			if x == nil {
				panic(targetRuntimeError("invalid memory address or nil pointer dereference"))
			}
			a := (*x).(array)
			if idx < 0 || idx >= int64(len(a)) {
				panic(targetRuntimeError(fmt.Sprintf("index out of range [%d] with length %d", idx, len(a))))
			}
			fr.env[instr] = &a[idx]
		default:
			panic(fmt.Sprintf("unexpected x type in IndexAddr: %T", x))
		}

	case *ssa.Index:
		x := fr.get(instr.X)
		idx := i.concreteInt(fr.get(instr.Index), "index")

		switch x := x.(type) {
		case array:
			if idx < 0 || idx >= int64(len(x)) {
				panic(targetRuntimeError(fmt.Sprintf("index out of range [%d] with length %d", idx, len(x))))
			}
			fr.env[instr] = x[idx]
		case string:
			if idx < 0 || idx >= int64(len(x)) {
				panic(targetRuntimeError(fmt.Sprintf("index out of range [%d] with length %d", idx, len(x))))
			}
			fr.env[instr] = x[idx]
		case symStr:
			panic(unsupported{"index into symbolic decimal string"})
		default:
			panic(fmt.Sprintf("unexpected x type in Index: %T", x))
		}

	case *ssa.Lookup:
		fr.env[instr] = i.lookup(instr, fr.get(instr.X), fr.get(instr.Index))

	case *ssa.MapUpdate:
		m := fr.get(instr.Map)
		key := i.concreteKey(fr.get(instr.Key))
		v := fr.get(instr.Value)
		switch m := m.(type) {
		case *omap:
			if m == nil {
				panic(targetRuntimeError("assignment to entry in nil map"))
			}
			m.insert(key, v)
		default:
			panic(fmt.Sprintf("illegal map type: %T", m))
		}

	case *ssa.TypeAssert:
		fr.env[instr] = typeAssert(fr.i, instr, fr.get(instr.X).(iface))

	case *ssa.MakeClosure:
		var bindings []value
		for _, binding := range instr.Bindings {
			bindings = append(bindings, fr.get(binding))
		}
		fr.env[instr] = &closure{instr.Fn.(*ssa.Function), bindings}

	case *ssa.Phi:
		panic("unreachable") // phis are processed at block entry

	case *ssa.Select:
		fr.env[instr] = i.doSelect(instr, fr)

	default:
		panic(fmt.Sprintf("unexpected instruction: %T", instr))
	}

	return kNext
}

// doSelect models select over the timer/ticker channels created by the
// time.NewTicker / time.NewTimer stubs: the earliest event fires; ties fork.
func (i *interpreter) doSelect(instr *ssa.Select, fr *frame) value {
	if !instr.Blocking {
		panic(unsupported{"non-blocking select"})
	}
	type cand struct {
		idx int
		at  int64
		cm  *chanModel
	}
	var cands []cand
	var closed []int
	for k, st := range instr.States {
		if st.Dir != types.RecvOnly {
			panic(unsupported{"select send"})
		}
		ch := fr.get(st.Chan)
		cm := i.chanKinds[ch]
		if cm == nil {
			// an ordinary channel (a stop channel): ready iff it has been closed; nothing can
			// send on it, there is one goroutine
			c, ok := ch.(chan value)
			if !ok {
				panic(unsupported{"select on a channel that is neither a modelled timer/ticker nor a plain channel"})
			}
			if c == nil {
				continue
			}
			select {
			case _, more := <-c:
				if more {
					panic(unsupported{"select on a channel holding a buffered value"})
				}
				closed = append(closed, k)
			default:
			}
			continue
		}
		switch cm.kind {
		case "ticker":
			cands = append(cands, cand{k, cm.period * int64(cm.fired+1), cm})
		case "timer":
			if cm.fired == 0 {
				cands = append(cands, cand{k, cm.period, cm})
			}
		}
	}
	if len(closed) > 0 {
		// a closed channel is ready now; a timer/ticker competes only if its event time has
		// already passed (Go then picks among the ready cases at random: fork)
		ready := []int{closed[0]}
		var readyCands []cand
		for _, c := range cands {
			if c.cm.created == nil {
				continue
			}
			i.path.base()
			if i.path.branch(Le(Add(c.cm.created, IntC(c.at)), i.path.clockAdv)) {
				ready = append(ready, c.idx)
				readyCands = append(readyCands, c)
			}
		}
		pick := 0
		if len(ready) > 1 {
			sel := i.path.freshVar("sel", SInt)
			i.path.assume(And(Le(IntC(0), sel), Lt(sel, IntC(int64(len(ready))))))
			pick = int(i.path.concretize(sel, "select tie").Int64())
		}
		if pick == 0 {
			r := tuple{closed[0], false}
			for _, st := range instr.States {
				r = append(r, zero(st.Chan.Type().Underlying().(*types.Chan).Elem()))
			}
			return r
		}
		cands = []cand{readyCands[pick-1]}
	}
	if len(cands) == 0 {
		panic(pathEnd{"budget", "select would block forever"})
	}
	best := cands[0]
	var ties []cand
	for _, c := range cands {
		if c.at < best.at {
			best = c
		}
	}
	for _, c := range cands {
		if c.at == best.at {
			ties = append(ties, c)
		}
	}
	chosen := ties[0]
	if len(ties) > 1 {
		sel := i.path.freshVar("sel", SInt)
		i.path.assume(And(Le(IntC(0), sel), Lt(sel, IntC(int64(len(ties))))))
		chosen = ties[i.path.concretize(sel, "select tie").Int64()]
	}
	chosen.cm.fired++
	// waiting for the event lets the modelled clock advance to the event time
	if chosen.cm.created != nil {
		at := Add(chosen.cm.created, IntC(chosen.at))
		p := i.path
		p.base()
		p.clockAdv = Ite(Gt(at, p.clockAdv), at, p.clockAdv)
	}
	total := 0
	for _, cm := range i.chanKinds {
		if cm.kind == "ticker" {
			total += cm.fired
		}
	}
	if total > i.path.job.cfg.TickBound {
		panic(pathEnd{"budget", "ticker unwinding bound exceeded"})
	}
	r := tuple{chosen.idx, true}
	for _, st := range instr.States {
		r = append(r, zero(st.Chan.Type().Underlying().(*types.Chan).Elem()))
	}
	return r
}

// prepareCall determines the function value and argument values for a
// function call in a Call, Go or Defer instruction, performing
// interface method lookup if needed.
func prepareCall(fr *frame, call *ssa.CallCommon) (fn value, args []value) {
	v := fr.get(call.Value)
	if call.Method == nil {
		// Function call.
		fn = v
	} else {
		// Interface method invocation.
		recv := v.(iface)
		if recv.t == nil {
			panic(targetRuntimeError("invalid memory address or nil pointer dereference (method call on nil interface)"))
		}
		if f := lookupMethod(fr.i, recv.t, call.Method); f == nil {
			// Unreachable in well-typed programs.
			panic(fmt.Sprintf("method set for dynamic type %v does not contain %s", recv.t, call.Method))
		} else {
			fn = f
		}
		args = append(args, recv.v)
	}
	for _, arg := range call.Args {
		args = append(args, fr.get(arg))
	}
	return
}

// call interprets a call to a function (function, builtin or closure)
// fn with arguments args, returning its result.
// callpos is the position of the callsite.
func call(i *interpreter, caller *frame, callpos token.Pos, fn value, args []value) value {
	switch fn := fn.(type) {
	case *ssa.Function:
		if fn == nil {
			panic(targetRuntimeError("invalid memory address or nil pointer dereference (call of nil func)"))
		}
		return callSSA(i, caller, callpos, fn, args, nil)
	case *closure:
		return callSSA(i, caller, callpos, fn.Fn, args, fn.Env)
	case *ssa.Builtin:
		return callBuiltin(caller, callpos, fn, args)
	}
	panic(fmt.Sprintf("cannot call %T", fn))
}

func loc(fset *token.FileSet, pos token.Pos) string {
	if pos == token.NoPos {
		return ""
	}
	return " at " + fset.Position(pos).String()
}

func zeroResult(sig *types.Signature) value {
	switch sig.Results().Len() {
	case 0:
		return nil
	case 1:
		return zero(sig.Results().At(0).Type())
	}
	return zero(sig.Results())
}

// callSSA interprets a call to function fn with arguments args,
// and lexical environment env, returning its result.
// callpos is the position of the callsite.
func callSSA(i *interpreter, caller *frame, callpos token.Pos, fn *ssa.Function, args []value, env []value) value {
	fr := &frame{
		i:      i,
		caller: caller, // for panic/recover
		fn:     fn,
	}
	if fn.Parent() == nil {
		name := fn.String()
		if in := i.intrinsic(fn); in != nil {
			saved := i.cur
			i.cur = fr
			defer func() { i.cur = saved }()
			return in(i, args)
		}
		if hn, ok := harnessRedirects[name]; ok {
			if hf := i.path.job.fn.Pkg.Func(hn); hf != nil && hf != fn {
				i.stubsSeen[name+" -> harness "+hn] = true
				return callSSA(i, caller, callpos, hf, args, nil)
			}
		}
		if ext := stubs[name]; ext != nil {
			i.stubsSeen[name] = true
			saved := i.cur
			i.cur = fr
			defer func() { i.cur = saved }()
			return ext(fr, args)
		}
		if fn.Pkg != nil {
			path := fn.Pkg.Pkg.Path()
			if fn.Name() == "init" && fn.Signature.Recv() == nil && !i.P.runsInit(path) {
				return nil // third-party package initialisers are not run
			}
			if i.P.isSinkPkg(path) {
				if strings.Contains(fn.Name(), "Fatal") || strings.Contains(fn.Name(), "Panic") || fn.Name() == "Exit" {
					if strings.Contains(fn.Name(), "Panic") {
						panic(targetPanic{"logrus panic"})
					}
					panic(exitPanic(1))
				}
				i.stubsSeen[path+".*"] = true
				if strings.HasPrefix(path, "github.com/alecthomas/kingpin") && fn.Signature.Results().Len() == 1 {
					// flag definitions: a fresh zero-valued object (flag variables are non-nil and hold
					// the zero value of their type until a harness assigns them)
					if pt, ok := fn.Signature.Results().At(0).Type().Underlying().(*types.Pointer); ok {
						v := zero(pt.Elem())
						return &v
					}
				}
				return zeroResult(fn.Signature)
			}
			if i.P.isRepoPkg(path) {
				i.funcsSeen[name] = true
			} else if path == "time" {
				if !timeAllowed[name] {
					panic(unsupportedf("time package function %s is not modelled", name))
				}
			}
		}
		if fn.Blocks == nil {
			panic(unsupportedf("no code for function: %s", name))
		}
	}

	// generic function body?
	if fn.TypeParams().Len() > 0 && len(fn.TypeArgs()) == 0 {
		panic("interp requires ssa.BuilderMode to include InstantiateGenerics to execute generics")
	}

	saved := i.cur
	i.cur = fr
	defer func() { i.cur = saved }()

	fr.env = make(map[ssa.Value]value)
	fr.block = fn.Blocks[0]
	fr.locals = make([]value, len(fn.Locals))
	for i, l := range fn.Locals {
		fr.locals[i] = zero(mustDeref(l.Type()))
		fr.env[l] = &fr.locals[i]
	}
	for i, p := range fn.Params {
		fr.env[p] = args[i]
	}
	for i, fv := range fn.FreeVars {
		fr.env[fv] = env[i]
	}
	for fr.block != nil {
		runFrame(fr)
	}
	// Destroy the locals to avoid accidental use after return.
	for i := range fn.Locals {
		fr.locals[i] = bad{}
	}
	return fr.result
}

// runFrame executes SSA instructions starting at fr.block and
// continuing until a return, a panic, or a recovered panic.
var debugPanics = os.Getenv("VERIF_DEBUG") != ""

func runFrame(fr *frame) {
	defer func() {
		if fr.block == nil {
			return // normal return
		}
		r := recover()
		if isControlPanic(r) {
			panic(r) // engine control flow: unwind without running target defers
		}
		if debugPanics && !fr.i.panicNoted {
			fr.i.panicNoted = true
			where := fr.fn.String()
			if fr.curInstr != nil {
				where += " " + loc(fr.i.prog.Fset, fr.curInstr.Pos()) + " " + fr.curInstr.String()
			}
			fmt.Fprintf(os.Stderr, "[debug] panic %v raised in %s\n", r, where)
		}
		fr.panicking = true
		fr.panic = r
		fr.runDefers()
		fr.block = fr.fn.Recover
	}()

	for {
		nonPhis := executePhis(fr)
		for _, instr := range nonPhis {
			if visitInstr(fr, instr) == kReturn {
				return
			}
			// Inv: kNext (continue) or kJump (last instr)
		}
	}
}

// executePhis executes the phi-nodes at the start of the current
// block and returns the non-phi instructions.
func executePhis(fr *frame) []ssa.Instruction {
	firstNonPhi := -1
	for i, instr := range fr.block.Instrs {
		if _, ok := instr.(*ssa.Phi); !ok {
			firstNonPhi = i
			break
		}
	}
	// Inv: 0 <= firstNonPhi; every block contains a non-phi.

	nonPhis := fr.block.Instrs[firstNonPhi:]
	if firstNonPhi > 0 {
		phis := fr.block.Instrs[:firstNonPhi]
		predIndex := slices.Index(fr.block.Preds, fr.prevBlock)
		fr.phitemps = fr.phitemps[:0]
		for _, phi := range phis {
			phi := phi.(*ssa.Phi)
			fr.phitemps = append(fr.phitemps, fr.get(phi.Edges[predIndex]))
		}
		for i, phi := range phis {
			fr.env[phi.(*ssa.Phi)] = fr.phitemps[i]
		}
	}
	return nonPhis
}

// doRecover implements the recover() built-in.
func doRecover(caller *frame) value {
	if caller != nil && !caller.panicking &&
		caller.caller != nil && caller.caller.panicking {
		caller.caller.panicking = false
		p := caller.caller.panic
		caller.caller.panic = nil

		switch p := p.(type) {
		case targetPanic:
			// The target program explicitly called panic().
			return p.v
		case runtime.Error:
			return iface{caller.i.P.errorStringPtr, caller.i.P.newErrorString(p.Error())}
		case string:
			return iface{caller.i.P.errorStringPtr, caller.i.P.newErrorString(p)}
		default:
			panic(fmt.Sprintf("unexpected panic type %T in target call to recover()", p))
		}
	}
	return iface{}
}

// targetRuntimeError is a Go run-time panic raised by the interpreted program.
type targetRuntimeError string

func (e targetRuntimeError) Error() string { return string(e) }
func (e targetRuntimeError) RuntimeError() {}

var _ = os.Stderr
