package symex

// Symbolic scalar values and the symbolic cases of binop/unop/conv.
// Heap shape stays concrete; only scalar leaves become terms.

import (
	"fmt"
	"go/token"
	"go/types"
	"math"
	"math/big"
	"strconv"
)

type symInt struct {
	t *Term
	k types.BasicKind // Go integer kind
}
type symBool struct{ t *Term }
type symFloat struct{ t *Term } // float64 modelled as Real with per-op relative error
type symStr struct{ dec *Term } // the decimal rendering of an Int term

func isSym(v value) bool {
	switch v.(type) {
	case symInt, symBool, symFloat, symStr:
		return true
	}
	return false
}

var (
	two53   = new(big.Int).Lsh(big.NewInt(1), 53)
	eps53   = new(big.Rat).SetFrac(big.NewInt(1), two53)
	big1000 = new(big.Rat).SetInt(new(big.Int).Lsh(big.NewInt(1), 1000))
)

func kindRange(k types.BasicKind) (lo, hi *big.Int) {
	bits := func(n uint, signed bool) (*big.Int, *big.Int) {
		if signed {
			h := new(big.Int).Lsh(big.NewInt(1), n-1)
			return new(big.Int).Neg(h), new(big.Int).Sub(h, big.NewInt(1))
		}
		h := new(big.Int).Lsh(big.NewInt(1), n)
		return big.NewInt(0), h.Sub(h, big.NewInt(1))
	}
	switch k {
	case types.Int, types.Int64:
		return bits(64, true)
	case types.Int32:
		return bits(32, true)
	case types.Int16:
		return bits(16, true)
	case types.Int8:
		return bits(8, true)
	case types.Uint, types.Uint64, types.Uintptr:
		return bits(64, false)
	case types.Uint32:
		return bits(32, false)
	case types.Uint16:
		return bits(16, false)
	case types.Uint8:
		return bits(8, false)
	}
	panic(unsupportedf("kindRange %v", k))
}

func intKindOf(v value) (types.BasicKind, bool) {
	switch v := v.(type) {
	case int:
		return types.Int, true
	case int8:
		return types.Int8, true
	case int16:
		return types.Int16, true
	case int32:
		return types.Int32, true
	case int64:
		return types.Int64, true
	case uint:
		return types.Uint, true
	case uint8:
		return types.Uint8, true
	case uint16:
		return types.Uint16, true
	case uint32:
		return types.Uint32, true
	case uint64:
		return types.Uint64, true
	case uintptr:
		return types.Uintptr, true
	case symInt:
		return v.k, true
	}
	return 0, false
}

// intTerm converts any (concrete or symbolic) integer value to a term.
func intTerm(v value) (*Term, types.BasicKind, bool) {
	switch v := v.(type) {
	case symInt:
		return v.t, v.k, true
	case uint64:
		return BigC(new(big.Int).SetUint64(v)), types.Uint64, true
	case uint:
		return BigC(new(big.Int).SetUint64(uint64(v))), types.Uint, true
	case uintptr:
		return BigC(new(big.Int).SetUint64(uint64(v))), types.Uintptr, true
	}
	if k, ok := intKindOf(v); ok {
		return IntC(asInt64(v)), k, true
	}
	return nil, 0, false
}

func floatTerm(v value) (*Term, bool) {
	switch v := v.(type) {
	case symFloat:
		return v.t, true
	case float64:
		if math.IsNaN(v) || math.IsInf(v, 0) {
			panic(unsupported{"non-finite float"})
		}
		return FloatC(v), true
	case float32:
		return FloatC(float64(v)), true
	}
	return nil, false
}

func boolTerm(v value) (*Term, bool) {
	switch v := v.(type) {
	case symBool:
		return v.t, true
	case bool:
		return BoolC(v), true
	}
	return nil, false
}

// boxInt boxes a constant of kind k as the matching concrete Go value.
func boxInt(i *big.Int, k types.BasicKind) value {
	switch k {
	case types.Int:
		return int(i.Int64())
	case types.Int8:
		return int8(i.Int64())
	case types.Int16:
		return int16(i.Int64())
	case types.Int32:
		return int32(i.Int64())
	case types.Int64:
		return i.Int64()
	case types.Uint:
		return uint(i.Uint64())
	case types.Uint8:
		return uint8(i.Uint64())
	case types.Uint16:
		return uint16(i.Uint64())
	case types.Uint32:
		return uint32(i.Uint64())
	case types.Uint64:
		return i.Uint64()
	case types.Uintptr:
		return uintptr(i.Uint64())
	}
	panic(unsupportedf("boxInt kind %v", k))
}

// mkInt wraps an Int term as a Go integer of kind k, recording the range side
// condition (the Int encoding is only faithful while no wrap-around occurs).
func (i *interpreter) mkInt(t *Term, k types.BasicKind) value {
	lo, hi := kindRange(k)
	if t.IsConst() {
		if t.I.Cmp(lo) >= 0 && t.I.Cmp(hi) <= 0 {
			return boxInt(t.I, k)
		}
		// constant outside the type: wrap like Go does
		m := new(big.Int).Sub(hi, lo)
		m.Add(m, big.NewInt(1))
		w := new(big.Int).Sub(t.I, lo)
		w.Mod(w, m)
		w.Add(w, lo)
		return boxInt(w, k)
	}
	if t.Lo != nil && t.Hi != nil && t.Lo.Cmp(new(big.Rat).SetInt(lo)) >= 0 && t.Hi.Cmp(new(big.Rat).SetInt(hi)) <= 0 {
		return symInt{i.path.name(t), k} // statically within the type
	}
	// may leave the type's range: Go wraps around (two's complement)
	m := new(big.Int).Sub(hi, lo)
	m.Add(m, big.NewInt(1))
	w := Add(eMod(Sub(t, BigC(lo)), BigC(m)), BigC(lo))
	w.Lo, w.Hi = new(big.Rat).SetInt(lo), new(big.Rat).SetInt(hi)
	i.path.wrapped++
	return symInt{i.path.name(w), k}
}

// rawInt wraps without a range obligation (engine-manufactured values, e.g.
// the nanosecond field of the time model).
func rawInt(t *Term, k types.BasicKind) value {
	if t.IsConst() {
		lo, hi := kindRange(k)
		if t.I.Cmp(lo) >= 0 && t.I.Cmp(hi) <= 0 {
			return boxInt(t.I, k)
		}
	}
	return symInt{t, k}
}

func mkBool(t *Term) value {
	if t.IsConst() {
		return t.B
	}
	return symBool{t}
}

var absErr = new(big.Rat).SetFrac(big.NewInt(1), new(big.Int).Lsh(big.NewInt(1), 200))

// fround models rounding of the exact real result r of a float64 operation:
// the result x satisfies |x - r| <= 2^-53*|r| + 2^-200 (round to nearest, the
// absolute term covers the subnormal range).
func (i *interpreter) fround(r *Term) value { return i.froundX(r, false) }

// froundX: exactSmall is set for add/sub, whose results are exact in the
// subnormal range (no absolute error term).
func (i *interpreter) froundX(r *Term, exactSmall bool) value {
	if r.IsConst() {
		f, _ := r.R.Float64()
		if math.IsInf(f, 0) {
			panic(unsupported{"float overflow"})
		}
		return f
	}
	// the same operation on the same operands yields the same float
	key := "f|" + r.String()
	if x, ok := i.path.roundMemo[key]; ok {
		return symFloat{x}
	}
	ar := Abs(r)
	bound := Mul(RatC(eps53), ar)
	if !exactSmall {
		bound = Add(bound, RatC(absErr))
	}
	var lo, hi *big.Rat
	if r.Lo != nil && r.Hi != nil {
		bh := bound.Hi
		lo, hi = rSub(r.Lo, bh), rAdd(r.Hi, bh)
		if r.Lo.Sign() >= 0 {
			lo = rat0 // rounding never changes the sign
			if r.Lo.Cmp(big.NewRat(1, 1<<40)) > 0 {
				lo = new(big.Rat).Mul(r.Lo, big.NewRat(1, 2))
			}
		}
		if r.Hi.Sign() <= 0 {
			hi = rat0
		}
	}
	x := i.path.freshVarB("f", SReal, widenLo(lo), widenHi(hi))
	// rounding is monotone: it never changes the sign
	zero := RatC(rat0)
	var sign *Term
	switch {
	case r.Lo != nil && r.Lo.Sign() > 0:
		sign = mk(SBool, "<=", zero, x)
	case r.Hi != nil && r.Hi.Sign() < 0:
		sign = mk(SBool, "<=", x, zero)
	case r.Lo != nil && r.Lo.Sign() == 0:
		sign = And(mk(SBool, "<=", zero, x), Implies(Le(r, zero), mk(SBool, "<=", x, zero))) // zero stays zero
	case r.Hi != nil && r.Hi.Sign() == 0:
		sign = And(mk(SBool, "<=", x, zero), Implies(Ge(r, zero), mk(SBool, "<=", zero, x)))
	default:
		sign = And(Implies(Ge(r, zero), mk(SBool, "<=", zero, x)), Implies(Le(r, zero), mk(SBool, "<=", x, zero)))
	}
	i.path.solver.Assert(And(Le(Sub(r, bound), x), Le(x, Add(r, bound)), sign))
	if h := absHi(r); h == nil || h.Cmp(big1000) >= 0 {
		i.path.addObligation(Lt(ar, RatC(big1000)), "float overflow")
	}
	i.path.roundMemo[key] = x
	return symFloat{x}
}

func mkFloatExact(r *Term) value {
	if r.IsConst() {
		f, exact := r.R.Float64()
		if exact {
			return f
		}
	}
	return symFloat{r}
}

func (i *interpreter) intToFloat(t *Term) value {
	if t.IsConst() {
		f, _ := new(big.Float).SetInt(t.I).Float64()
		return f
	}
	if h := absHi(t); h != nil && h.Cmp(new(big.Rat).SetInt(two53)) <= 0 {
		return symFloat{ToReal(t)} // exact
	}
	key := "i|" + t.String()
	if x, ok := i.path.roundMemo[key]; ok {
		return symFloat{x}
	}
	at := Abs(t)
	bound := Mul(RatC(eps53), ToReal(at))
	x := i.path.freshVarB("fi", SReal, rSub(t.Lo, bound.Hi), rAdd(t.Hi, bound.Hi))
	i.path.roundMemo[key] = x
	tr := ToReal(t)
	i.path.solver.Assert(And(Le(Sub(tr, bound), x), Le(x, Add(tr, bound)),
		Implies(Le(at, BigC(two53)), Eq(x, tr))))
	return symFloat{x}
}

// truncToInt is Go's float→int conversion (truncation toward zero).
func truncToInt(r *Term) *Term {
	return Ite(Ge(r, RatC(new(big.Rat))), Floor(r), Neg(Floor(Neg(r))))
}

func ceilTerm(r *Term) *Term { return Neg(Floor(Neg(r))) }

// symBinop handles binary operators when at least one operand is symbolic.
func (i *interpreter) symBinop(op token.Token, t types.Type, x, y value) value {
	// strings
	if _, ok := x.(symStr); ok || isSymStr(y) {
		switch op {
		case token.EQL:
			return mkBool(i.equalsT(t, x, y))
		case token.NEQ:
			return mkBool(Not(i.equalsT(t, x, y)))
		}
		panic(unsupportedf("string op %s on symbolic decimal string", op))
	}
	// bools
	if xb, ok := boolTerm(x); ok {
		yb, _ := boolTerm(y)
		switch op {
		case token.EQL:
			return mkBool(Eq(xb, yb))
		case token.NEQ:
			return mkBool(Not(Eq(xb, yb)))
		case token.AND:
			return mkBool(And(xb, yb))
		case token.OR:
			return mkBool(Or(xb, yb))
		}
		panic(unsupportedf("bool op %s", op))
	}
	// floats
	if xf, ok := floatTerm(x); ok {
		yf, ok2 := floatTerm(y)
		if !ok2 {
			panic(unsupportedf("mixed float op %T %s %T", x, op, y))
		}
		switch op {
		case token.ADD:
			return i.froundX(Add(xf, yf), true)
		case token.SUB:
			return i.froundX(Sub(xf, yf), true)
		case token.MUL:
			if !xf.IsConst() && !yf.IsConst() {
				yf = RatC(i.path.concretizeReal(yf, "float multiplication"))
			}
			return i.fround(Mul(xf, yf))
		case token.QUO:
			if !yf.IsConst() {
				yf = RatC(i.path.concretizeReal(yf, "float division"))
			}
			if yf.R.Sign() == 0 {
				panic(unsupported{"float division by zero"})
			}
			return i.fround(RDiv(xf, yf))
		case token.LSS:
			return mkBool(Lt(xf, yf))
		case token.LEQ:
			return mkBool(Le(xf, yf))
		case token.GTR:
			return mkBool(Gt(xf, yf))
		case token.GEQ:
			return mkBool(Ge(xf, yf))
		case token.EQL:
			return mkBool(Eq(xf, yf))
		case token.NEQ:
			return mkBool(Not(Eq(xf, yf)))
		}
		panic(unsupportedf("float op %s", op))
	}
	// integers
	xi, xk, ok := intTerm(x)
	if !ok {
		panic(unsupportedf("symbolic binop %T %s %T", x, op, y))
	}
	yi, _, ok := intTerm(y)
	if !ok {
		panic(unsupportedf("symbolic binop %T %s %T", x, op, y))
	}
	switch op {
	case token.ADD:
		return i.mkInt(Add(xi, yi), xk)
	case token.SUB:
		return i.mkInt(Sub(xi, yi), xk)
	case token.MUL:
		if !xi.IsConst() && !yi.IsConst() {
			yi = BigC(i.path.concretize(yi, "integer multiplication"))
		}
		return i.mkInt(Mul(xi, yi), xk)
	case token.QUO, token.REM:
		if !yi.IsConst() {
			yi = BigC(i.path.concretize(yi, "integer division"))
		}
		if yi.I.Sign() == 0 {
			panic(targetRuntimeError("integer divide by zero"))
		}
		if op == token.QUO {
			return i.mkInt(TQuo(xi, yi), xk)
		}
		return i.mkInt(TRem(xi, yi), xk)
	case token.SHL:
		if !yi.IsConst() {
			yi = BigC(i.path.concretize(yi, "shift count"))
		}
		return i.mkInt(Mul(xi, BigC(new(big.Int).Lsh(big.NewInt(1), uint(yi.I.Int64())))), xk)
	case token.SHR:
		if !yi.IsConst() {
			yi = BigC(i.path.concretize(yi, "shift count"))
		}
		return i.mkInt(eDiv(xi, BigC(new(big.Int).Lsh(big.NewInt(1), uint(yi.I.Int64())))), xk)
	case token.AND:
		// x & (2^k-1) with non-negative x is x mod 2^k
		if yi.IsConst() {
			m := new(big.Int).Add(yi.I, big.NewInt(1))
			if m.Sign() > 0 && new(big.Int).And(m, yi.I).Sign() == 0 {
				i.path.addObligation(Ge(xi, IntC(0)), "bit-and on negative value")
				return i.mkInt(eMod(xi, BigC(m)), xk)
			}
		}
		panic(unsupported{"symbolic bitwise and"})
	case token.LSS:
		return mkBool(Lt(xi, yi))
	case token.LEQ:
		return mkBool(Le(xi, yi))
	case token.GTR:
		return mkBool(Gt(xi, yi))
	case token.GEQ:
		return mkBool(Ge(xi, yi))
	case token.EQL:
		return mkBool(Eq(xi, yi))
	case token.NEQ:
		return mkBool(Not(Eq(xi, yi)))
	}
	panic(unsupportedf("symbolic integer op %s", op))
}

func isSymStr(v value) bool { _, ok := v.(symStr); return ok }

func (i *interpreter) symUnop(op token.Token, x value) value {
	switch x := x.(type) {
	case symBool:
		if op == token.NOT {
			return mkBool(Not(x.t))
		}
	case symInt:
		if op == token.SUB {
			return i.mkInt(Neg(x.t), x.k)
		}
	case symFloat:
		if op == token.SUB {
			return symFloat{Neg(x.t)}
		}
	}
	panic(unsupportedf("symbolic unop %s %T", op, x))
}

// symConv handles numeric conversions of symbolic values.
func (i *interpreter) symConv(t_dst, t_src types.Type, x value) value {
	bd, ok := t_dst.Underlying().(*types.Basic)
	if !ok {
		panic(unsupportedf("conversion of symbolic value to %s", t_dst))
	}
	switch x := x.(type) {
	case symInt:
		switch {
		case bd.Info()&types.IsInteger != 0:
			return i.mkInt(x.t, bd.Kind())
		case bd.Kind() == types.Float64:
			return i.intToFloat(x.t)
		}
	case symFloat:
		switch {
		case bd.Info()&types.IsInteger != 0:
			return i.mkInt(truncToInt(x.t), bd.Kind())
		case bd.Kind() == types.Float64:
			return x
		}
	case symStr:
		if bd.Kind() == types.String {
			return x
		}
	case symBool:
		if bd.Kind() == types.Bool {
			return x
		}
	}
	panic(unsupportedf("conversion %s -> %s of %T", t_src, t_dst, x))
}

// decimalOf parses s as a canonical decimal integer (what FormatInt prints).
func decimalOf(s string) (*big.Int, bool) {
	if s == "" {
		return nil, false
	}
	v, ok := new(big.Int).SetString(s, 10)
	if !ok || v.String() != s {
		return nil, false
	}
	return v, true
}

// equalsT is the term-valued version of equals: structural equality of two
// interpreter values of static type t, as a Bool term.
func (i *interpreter) equalsT(t types.Type, x, y value) *Term {
	if !isSym(x) && !isSym(y) {
		switch x := x.(type) {
		case structure:
			ys := y.(structure)
			tS := t.Underlying().(*types.Struct)
			var cs []*Term
			for k := 0; k < tS.NumFields(); k++ {
				if f := tS.Field(k); f.Name() != "_" {
					cs = append(cs, i.equalsT(f.Type(), x[k], ys[k]))
				}
			}
			return And(cs...)
		case array:
			ya := y.(array)
			tE := t.Underlying().(*types.Array).Elem()
			var cs []*Term
			for k := range x {
				cs = append(cs, i.equalsT(tE, x[k], ya[k]))
			}
			return And(cs...)
		case iface:
			yi := y.(iface)
			if !sameType(x.t, yi.t) {
				return TFalse
			}
			if x.t == nil {
				return TTrue
			}
			return i.equalsT(x.t, x.v, yi.v)
		}
		return BoolC(equals(t, x, y))
	}
	if sx, ok := x.(symStr); ok {
		switch y := y.(type) {
		case symStr:
			return Eq(sx.dec, y.dec)
		case string:
			if v, ok := decimalOf(y); ok {
				return Eq(sx.dec, BigC(v))
			}
			return TFalse
		}
	}
	if sy, ok := y.(symStr); ok {
		if xs, ok := x.(string); ok {
			if v, ok := decimalOf(xs); ok {
				return Eq(sy.dec, BigC(v))
			}
			return TFalse
		}
	}
	if a, ok := boolTerm(x); ok {
		b, _ := boolTerm(y)
		return Eq(a, b)
	}
	if a, ok := floatTerm(x); ok {
		b, _ := floatTerm(y)
		return Eq(a, b)
	}
	if a, _, ok := intTerm(x); ok {
		b, _, ok2 := intTerm(y)
		if ok2 {
			return Eq(a, b)
		}
	}
	panic(unsupportedf("equality on %T / %T", x, y))
}

func symToString(v value) string {
	switch v := v.(type) {
	case symInt:
		return "‹" + v.t.String() + "›"
	case symBool:
		return "‹" + v.t.String() + "›"
	case symFloat:
		return "‹" + v.t.String() + "›"
	case symStr:
		return "‹dec " + v.dec.String() + "›"
	}
	return fmt.Sprint(v)
}

func ratToJSON(r *big.Rat) interface{} {
	if r.IsInt() {
		if r.Num().IsInt64() {
			return r.Num().Int64()
		}
		return r.Num().String()
	}
	f, _ := r.Float64()
	return strconv.FormatFloat(f, 'g', -1, 64)
}
