package symex

// SMT term construction with constant folding and static interval bounds.
// Terms are Int, Real or Bool; Go fixed-width integers are encoded as
// mathematical Int with range side conditions collected by the executor (see
// sym.go).  Every numeric term carries a conservative interval [Lo,Hi] that
// lets most side conditions, absolute values and infeasible comparisons be
// decided without the solver.

import (
	"fmt"
	"math/big"
	"strings"
)

type Sort uint8

const (
	SBool Sort = iota
	SInt
	SReal
)

type Term struct {
	Sort Sort
	Op   string // "c" constant, "v" variable, otherwise an SMT-LIB operator
	Args []*Term
	I    *big.Int // Int constant
	R    *big.Rat // Real constant
	B    bool     // Bool constant
	Name string
	str  string
	Lo   *big.Rat // static lower bound (nil = unknown); Int and Real sorts only
	Hi   *big.Rat // static upper bound
	Size int
}

var (
	TTrue  = &Term{Sort: SBool, Op: "c", B: true, Size: 1}
	TFalse = &Term{Sort: SBool, Op: "c", B: false, Size: 1}
	rat0   = new(big.Rat)
)

func (t *Term) IsConst() bool { return t.Op == "c" }

func IntC(i int64) *Term { return BigC(big.NewInt(i)) }
func BigC(i *big.Int) *Term {
	v := new(big.Int).Set(i)
	r := new(big.Rat).SetInt(v)
	return &Term{Sort: SInt, Op: "c", I: v, Lo: r, Hi: r, Size: 1}
}
func RatC(r *big.Rat) *Term {
	v := new(big.Rat).Set(r)
	return &Term{Sort: SReal, Op: "c", R: v, Lo: v, Hi: v, Size: 1}
}
func BoolC(b bool) *Term {
	if b {
		return TTrue
	}
	return TFalse
}
func Var(name string, s Sort) *Term { return &Term{Sort: s, Op: "v", Name: name, Size: 1} }

// VarB is a variable with known bounds.
func VarB(name string, s Sort, lo, hi *big.Rat) *Term {
	return &Term{Sort: s, Op: "v", Name: name, Lo: lo, Hi: hi, Size: 1}
}

func FloatC(f float64) *Term {
	r := new(big.Rat)
	if r.SetFloat64(f) == nil {
		panic(unsupported{"non-finite float constant"})
	}
	return RatC(r)
}

func bigStr(i *big.Int) string {
	if i.Sign() < 0 {
		return "(- " + new(big.Int).Neg(i).String() + ")"
	}
	return i.String()
}

func (t *Term) String() string {
	if t.str != "" {
		return t.str
	}
	var s string
	switch t.Op {
	case "c":
		switch t.Sort {
		case SBool:
			if t.B {
				s = "true"
			} else {
				s = "false"
			}
		case SInt:
			s = bigStr(t.I)
		case SReal:
			if t.R.IsInt() {
				n := t.R.Num()
				if n.Sign() < 0 {
					s = "(- " + new(big.Int).Neg(n).String() + ".0)"
				} else {
					s = n.String() + ".0"
				}
			} else {
				n, d := t.R.Num(), t.R.Denom()
				if n.Sign() < 0 {
					s = "(- (/ " + new(big.Int).Neg(n).String() + ".0 " + d.String() + ".0))"
				} else {
					s = "(/ " + n.String() + ".0 " + d.String() + ".0)"
				}
			}
		}
	case "v":
		s = t.Name
	default:
		var b strings.Builder
		b.WriteByte('(')
		b.WriteString(t.Op)
		for _, a := range t.Args {
			b.WriteByte(' ')
			b.WriteString(a.String())
		}
		b.WriteByte(')')
		s = b.String()
	}
	t.str = s
	return s
}

func mk(s Sort, op string, args ...*Term) *Term {
	n := 1
	for _, a := range args {
		n += a.Size
	}
	return &Term{Sort: s, Op: op, Args: args, Size: n}
}

func withB(t *Term, lo, hi *big.Rat) *Term {
	t.Lo, t.Hi = widenLo(lo), widenHi(hi)
	return t
}

var grid = new(big.Int).Lsh(big.NewInt(1), 64)

// widenLo/widenHi round bounds outward to a 2^-64 grid when their
// representation grows, so interval arithmetic stays cheap.
func widenLo(r *big.Rat) *big.Rat {
	if r == nil || r.Denom().BitLen() <= 80 {
		return r
	}
	n := new(big.Int).Mul(r.Num(), grid)
	q, m := new(big.Int), new(big.Int)
	q.DivMod(n, r.Denom(), m)
	return new(big.Rat).SetFrac(q, grid)
}
func widenHi(r *big.Rat) *big.Rat {
	if r == nil || r.Denom().BitLen() <= 80 {
		return r
	}
	n := new(big.Int).Mul(r.Num(), grid)
	q, m := new(big.Int), new(big.Int)
	q.DivMod(n, r.Denom(), m)
	if m.Sign() != 0 {
		q.Add(q, big.NewInt(1))
	}
	return new(big.Rat).SetFrac(q, grid)
}

func rAdd(a, b *big.Rat) *big.Rat {
	if a == nil || b == nil {
		return nil
	}
	return new(big.Rat).Add(a, b)
}
func rSub(a, b *big.Rat) *big.Rat {
	if a == nil || b == nil {
		return nil
	}
	return new(big.Rat).Sub(a, b)
}
func rNeg(a *big.Rat) *big.Rat {
	if a == nil {
		return nil
	}
	return new(big.Rat).Neg(a)
}
func rMin(a, b *big.Rat) *big.Rat {
	if a == nil || b == nil {
		return nil
	}
	if a.Cmp(b) <= 0 {
		return a
	}
	return b
}
func rMax(a, b *big.Rat) *big.Rat {
	if a == nil || b == nil {
		return nil
	}
	if a.Cmp(b) >= 0 {
		return a
	}
	return b
}
func rFloor(a *big.Rat) *big.Rat {
	if a == nil {
		return nil
	}
	q, m := new(big.Int), new(big.Int)
	q.DivMod(a.Num(), a.Denom(), m)
	return new(big.Rat).SetInt(q)
}

// ---- Bool

func Not(a *Term) *Term {
	if a.IsConst() {
		return BoolC(!a.B)
	}
	if a.Op == "not" {
		return a.Args[0]
	}
	return mk(SBool, "not", a)
}

func And(as ...*Term) *Term {
	var out []*Term
	for _, a := range as {
		if a.IsConst() {
			if !a.B {
				return TFalse
			}
			continue
		}
		if a.Op == "and" {
			out = append(out, a.Args...)
			continue
		}
		out = append(out, a)
	}
	switch len(out) {
	case 0:
		return TTrue
	case 1:
		return out[0]
	}
	return mk(SBool, "and", out...)
}

func Or(as ...*Term) *Term {
	var out []*Term
	for _, a := range as {
		if a.IsConst() {
			if a.B {
				return TTrue
			}
			continue
		}
		if a.Op == "or" {
			out = append(out, a.Args...)
			continue
		}
		out = append(out, a)
	}
	switch len(out) {
	case 0:
		return TFalse
	case 1:
		return out[0]
	}
	return mk(SBool, "or", out...)
}

func Implies(a, b *Term) *Term { return Or(Not(a), b) }

func Ite(c, a, b *Term) *Term {
	if c.IsConst() {
		if c.B {
			return a
		}
		return b
	}
	if a == b {
		return a
	}
	if a.Sort == SBool {
		if a.IsConst() && b.IsConst() {
			if a.B == b.B {
				return a
			}
			if a.B && !b.B {
				return c
			}
			return Not(c)
		}
		return mk(SBool, "ite", c, a, b)
	}
	if a.Sort != b.Sort {
		a, b = promote(a, b)
	}
	if a.IsConst() && b.IsConst() && cmpConst(a, b) == 0 {
		return a
	}
	return withB(mk(a.Sort, "ite", c, a, b), rMin(a.Lo, b.Lo), rMax(a.Hi, b.Hi))
}

// ---- arithmetic

func promote(a, b *Term) (*Term, *Term) {
	if a.Sort == b.Sort {
		return a, b
	}
	return ToReal(a), ToReal(b)
}

func ToReal(a *Term) *Term {
	if a.Sort == SReal {
		return a
	}
	if a.IsConst() {
		return RatC(new(big.Rat).SetInt(a.I))
	}
	return withB(mk(SReal, "to_real", a), a.Lo, a.Hi)
}

// Floor returns the Int floor of a Real term.
func Floor(a *Term) *Term {
	if a.Sort == SInt {
		return a
	}
	if a.IsConst() {
		return BigC(rFloor(a.R).Num())
	}
	if a.Op == "to_real" {
		return a.Args[0]
	}
	return withB(mk(SInt, "to_int", a), rFloor(a.Lo), rFloor(a.Hi))
}

func Add(a, b *Term) *Term {
	a, b = promote(a, b)
	if a.IsConst() && b.IsConst() {
		if a.Sort == SInt {
			return BigC(new(big.Int).Add(a.I, b.I))
		}
		return RatC(new(big.Rat).Add(a.R, b.R))
	}
	if isZero(a) {
		return b
	}
	if isZero(b) {
		return a
	}
	return withB(mk(a.Sort, "+", a, b), rAdd(a.Lo, b.Lo), rAdd(a.Hi, b.Hi))
}

func Sub(a, b *Term) *Term {
	a, b = promote(a, b)
	if a.IsConst() && b.IsConst() {
		if a.Sort == SInt {
			return BigC(new(big.Int).Sub(a.I, b.I))
		}
		return RatC(new(big.Rat).Sub(a.R, b.R))
	}
	if isZero(b) {
		return a
	}
	if a == b {
		if a.Sort == SInt {
			return IntC(0)
		}
		return RatC(rat0)
	}
	return withB(mk(a.Sort, "-", a, b), rSub(a.Lo, b.Hi), rSub(a.Hi, b.Lo))
}

func Neg(a *Term) *Term {
	if a.IsConst() {
		if a.Sort == SInt {
			return BigC(new(big.Int).Neg(a.I))
		}
		return RatC(new(big.Rat).Neg(a.R))
	}
	if a.Op == "-" && len(a.Args) == 1 {
		return a.Args[0]
	}
	return withB(mk(a.Sort, "-", a), rNeg(a.Hi), rNeg(a.Lo))
}

func isZero(a *Term) bool {
	if !a.IsConst() {
		return false
	}
	if a.Sort == SInt {
		return a.I.Sign() == 0
	}
	return a.R.Sign() == 0
}

func isOne(a *Term) bool {
	if !a.IsConst() {
		return false
	}
	if a.Sort == SInt {
		return a.I.IsInt64() && a.I.Int64() == 1
	}
	return a.R.IsInt() && a.R.Num().IsInt64() && a.R.Num().Int64() == 1
}

func constRat(a *Term) *big.Rat {
	if a.Sort == SInt {
		return new(big.Rat).SetInt(a.I)
	}
	return a.R
}

// Mul requires at least one constant operand (callers concretise first).
func Mul(a, b *Term) *Term {
	a, b = promote(a, b)
	if a.IsConst() && b.IsConst() {
		if a.Sort == SInt {
			return BigC(new(big.Int).Mul(a.I, b.I))
		}
		return RatC(new(big.Rat).Mul(a.R, b.R))
	}
	if !a.IsConst() && !b.IsConst() {
		panic(unsupported{"nonlinear multiplication"})
	}
	if b.IsConst() {
		a, b = b, a
	}
	// a const
	if isZero(a) {
		return a
	}
	if isOne(a) {
		return b
	}
	c := constRat(a)
	var lo, hi *big.Rat
	if b.Lo != nil {
		lo = new(big.Rat).Mul(c, b.Lo)
	}
	if b.Hi != nil {
		hi = new(big.Rat).Mul(c, b.Hi)
	}
	if c.Sign() < 0 {
		lo, hi = hi, lo
	}
	return withB(mk(a.Sort, "*", a, b), lo, hi)
}

// RDiv is real division by a non-zero constant.
func RDiv(a, b *Term) *Term {
	a, b = ToReal(a), ToReal(b)
	if !b.IsConst() {
		panic(unsupported{"nonlinear division"})
	}
	if b.R.Sign() == 0 {
		panic(unsupported{"float division by zero"})
	}
	if a.IsConst() {
		return RatC(new(big.Rat).Quo(a.R, b.R))
	}
	inv := new(big.Rat).Inv(b.R)
	return Mul(RatC(inv), a)
}

// eDiv / eMod are SMT-LIB's Euclidean div/mod by a positive constant.
func eDiv(a, c *Term) *Term {
	if a.IsConst() {
		q, m := new(big.Int), new(big.Int)
		q.DivMod(a.I, c.I, m)
		return BigC(q)
	}
	if isOne(c) {
		return a
	}
	cr := constRat(c)
	var lo, hi *big.Rat
	if a.Lo != nil {
		lo = rFloor(new(big.Rat).Quo(a.Lo, cr))
	}
	if a.Hi != nil {
		hi = rFloor(new(big.Rat).Quo(a.Hi, cr))
	}
	return withB(mk(SInt, "div", a, c), lo, hi)
}
func eMod(a, c *Term) *Term {
	if a.IsConst() {
		q, m := new(big.Int), new(big.Int)
		q.DivMod(a.I, c.I, m)
		return BigC(m)
	}
	return withB(mk(SInt, "mod", a, c), rat0, new(big.Rat).SetInt(new(big.Int).Sub(c.I, big.NewInt(1))))
}

// TQuo is Go's truncated integer quotient by a non-zero constant.
func TQuo(a, c *Term) *Term {
	if !c.IsConst() {
		panic(unsupported{"integer division by symbolic divisor"})
	}
	if a.IsConst() {
		return BigC(new(big.Int).Quo(a.I, c.I))
	}
	neg := c.I.Sign() < 0
	ac := BigC(new(big.Int).Abs(c.I))
	q := Ite(Ge(a, IntC(0)), eDiv(a, ac), Neg(eDiv(Neg(a), ac)))
	if neg {
		return Neg(q)
	}
	return q
}

// TRem is Go's truncated remainder by a non-zero constant.
func TRem(a, c *Term) *Term {
	if !c.IsConst() {
		panic(unsupported{"integer remainder by symbolic divisor"})
	}
	if a.IsConst() {
		return BigC(new(big.Int).Rem(a.I, c.I))
	}
	ac := BigC(new(big.Int).Abs(c.I))
	return Ite(Ge(a, IntC(0)), eMod(a, ac), Neg(eMod(Neg(a), ac)))
}

// ---- comparisons

func cmpConst(a, b *Term) int {
	if a.Sort == SInt {
		return a.I.Cmp(b.I)
	}
	return a.R.Cmp(b.R)
}

func Lt(a, b *Term) *Term {
	a, b = promote(a, b)
	if a.IsConst() && b.IsConst() {
		return BoolC(cmpConst(a, b) < 0)
	}
	if a == b {
		return TFalse
	}
	if a.Hi != nil && b.Lo != nil && a.Hi.Cmp(b.Lo) < 0 {
		return TTrue
	}
	if a.Lo != nil && b.Hi != nil && a.Lo.Cmp(b.Hi) >= 0 {
		return TFalse
	}
	return mk(SBool, "<", a, b)
}
func Le(a, b *Term) *Term {
	a, b = promote(a, b)
	if a.IsConst() && b.IsConst() {
		return BoolC(cmpConst(a, b) <= 0)
	}
	if a == b {
		return TTrue
	}
	if a.Hi != nil && b.Lo != nil && a.Hi.Cmp(b.Lo) <= 0 {
		return TTrue
	}
	if a.Lo != nil && b.Hi != nil && a.Lo.Cmp(b.Hi) > 0 {
		return TFalse
	}
	return mk(SBool, "<=", a, b)
}
func Gt(a, b *Term) *Term { return Lt(b, a) }
func Ge(a, b *Term) *Term { return Le(b, a) }

func Eq(a, b *Term) *Term {
	if a.Sort == SBool || b.Sort == SBool {
		if a.IsConst() && b.IsConst() {
			return BoolC(a.B == b.B)
		}
		if a.IsConst() {
			a, b = b, a
		}
		if b.IsConst() {
			if b.B {
				return a
			}
			return Not(a)
		}
		if a == b {
			return TTrue
		}
		return mk(SBool, "=", a, b)
	}
	a, b = promote(a, b)
	if a.IsConst() && b.IsConst() {
		return BoolC(cmpConst(a, b) == 0)
	}
	if a == b {
		return TTrue
	}
	if a.Hi != nil && b.Lo != nil && a.Hi.Cmp(b.Lo) < 0 {
		return TFalse
	}
	if a.Lo != nil && b.Hi != nil && a.Lo.Cmp(b.Hi) > 0 {
		return TFalse
	}
	return mk(SBool, "=", a, b)
}

func Abs(a *Term) *Term {
	if a.IsConst() {
		if a.Sort == SInt {
			return BigC(new(big.Int).Abs(a.I))
		}
		return RatC(new(big.Rat).Abs(a.R))
	}
	if a.Lo != nil && a.Lo.Sign() >= 0 {
		return a
	}
	if a.Hi != nil && a.Hi.Sign() <= 0 {
		return Neg(a)
	}
	var z *Term
	if a.Sort == SInt {
		z = IntC(0)
	} else {
		z = RatC(rat0)
	}
	return Ite(Ge(a, z), a, Neg(a))
}

// absHi returns an upper bound of |a| or nil.
func absHi(a *Term) *big.Rat {
	if a.Lo == nil || a.Hi == nil {
		return nil
	}
	l := new(big.Rat).Abs(a.Lo)
	h := new(big.Rat).Abs(a.Hi)
	if l.Cmp(h) > 0 {
		return l
	}
	return h
}

// unsupported is the panic payload for constructs the executor cannot model.
type unsupported struct{ msg string }

func (u unsupported) Error() string { return "unsupported: " + u.msg }

func unsupportedf(f string, a ...interface{}) unsupported {
	return unsupported{fmt.Sprintf(f, a...)}
}
