package symex

// Per-path state: decision prefix, path condition (kept in the solver's
// assertion stack), declared inputs, side-condition obligations, assertions.

import (
	"fmt"
	"math/big"
	"sort"
	"strings"
)

type Decision struct {
	IsVal bool
	B     bool
	V     *big.Rat // concretised value (integers are integral rationals)
}

func (d Decision) String() string {
	if d.IsVal {
		return d.V.RatString()
	}
	if d.B {
		return "T"
	}
	return "F"
}

type inputVar struct {
	Name string // user-visible name
	Smt  string // quoted SMT identifier
	Sort Sort
	Wide bool // numeric input with a large domain (perturbed when looking for diverse models)
	T    *Term
}

type Candidate struct {
	AssertID string                 `json:"assert_id"`
	Kind     string                 `json:"kind"` // "assert" or "panic"
	Msg      string                 `json:"msg,omitempty"`
	Model    map[string]interface{} `json:"inputs"`
	Margin   bool                   `json:"margin"`
	Path     string                 `json:"path"`
}

type pathEnd struct {
	kind string // "infeasible", "exit", "budget", "pruned"
	msg  string
}

type pathCtx struct {
	job      *Job
	solver   *Solver
	prefix   []Decision
	pos      int
	taken    []Decision
	inputs   []inputVar
	inputSet map[string]*Term
	fresh    int
	oblig    []*Term
	obligWhy []string
	margin   []*Term
	steps    int
	reach    map[string]bool
	checked  map[string]int // assert id -> times checked on this path
	cands    []Candidate
	branches int
	wrapped  int
	goStmts  int

	// clock model
	nowSeq   int
	lastNow  *Term
	clockAdv *Term // accumulated verifSleep advance (ns)
	baseSec  *Term // T0 in seconds
	mockNow  value // frozen mock clock value (a Time structure) or nil

	tickCount    map[value]int
	choices      map[string]int
	roundMemo    map[string]*Term
	nameMemo     map[string]*Term
	inconclusive []string
}

func newPathCtx(job *Job, solver *Solver, prefix []Decision) *pathCtx {
	return &pathCtx{
		job: job, solver: solver, prefix: prefix,
		inputSet: map[string]*Term{}, reach: map[string]bool{}, checked: map[string]int{},
		tickCount: map[value]int{}, choices: map[string]int{}, roundMemo: map[string]*Term{}, nameMemo: map[string]*Term{},
	}
}

func (p *pathCtx) freshVar(prefix string, s Sort) *Term {
	p.fresh++
	name := fmt.Sprintf("%s!%d", prefix, p.fresh)
	p.solver.Declare(name, s)
	return Var(name, s)
}

func (p *pathCtx) freshVarB(prefix string, s Sort, lo, hi *big.Rat) *Term {
	p.fresh++
	name := fmt.Sprintf("%s!%d", prefix, p.fresh)
	p.solver.Declare(name, s)
	return VarB(name, s, lo, hi)
}

// name introduces a definitional variable for a large term so that later
// terms stay small (A-normal form); bounds carry over.
func (p *pathCtx) name(t *Term) *Term {
	if t.Size <= 8 || t.Sort == SBool {
		return t
	}
	key := t.String()
	if v, ok := p.nameMemo[key]; ok {
		return v
	}
	pre := "i"
	if t.Sort == SReal {
		pre = "r"
	}
	v := p.freshVarB(pre, t.Sort, t.Lo, t.Hi)
	p.solver.Assert(mk(SBool, "=", v, t))
	p.nameMemo[key] = v
	return v
}

func smtQuote(name string) string {
	name = strings.Map(func(r rune) rune {
		if r == '|' || r == '\\' {
			return '_'
		}
		return r
	}, name)
	return "|" + name + "|"
}

// input declares (once per path) a named input variable.
func (p *pathCtx) input(name string, s Sort) (*Term, bool) {
	if t, ok := p.inputSet[name]; ok {
		return t, false
	}
	q := smtQuote(name)
	p.solver.Declare(q, s)
	t := Var(q, s)
	p.inputSet[name] = t
	p.inputs = append(p.inputs, inputVar{Name: name, Smt: q, Sort: s, T: t})
	return t, true
}

func (p *pathCtx) inputInt(name string, lo, hi *Term) *Term {
	t, isNew := p.input(name, SInt)
	if isNew {
		p.solver.Assert(mk(SBool, "and", mk(SBool, "<=", lo, t), mk(SBool, "<=", t, hi)))
		t.Lo, t.Hi = lo.Lo, hi.Hi
		if name != "T0" && (t.Lo == nil || t.Hi == nil || new(big.Rat).Sub(t.Hi, t.Lo).Cmp(big.NewRat(16, 1)) >= 0) {
			p.inputs[len(p.inputs)-1].Wide = true
		}
	}
	return t
}

func (p *pathCtx) assume(c *Term) {
	if c.IsConst() {
		if !c.B {
			panic(pathEnd{"infeasible", "assume(false)"})
		}
		return
	}
	p.solver.Assert(c)
}

func (p *pathCtx) addObligation(c *Term, why string) {
	if c.IsConst() {
		if !c.B {
			p.inconclusive = append(p.inconclusive, "side condition violated: "+why)
		}
		return
	}
	p.oblig = append(p.oblig, c)
	p.obligWhy = append(p.obligWhy, why)
}

func (p *pathCtx) pathString() string {
	var b strings.Builder
	for k, d := range p.taken {
		if k > 0 {
			b.WriteByte(',')
		}
		b.WriteString(d.String())
	}
	return b.String()
}

// branch decides a symbolic condition, forking the exploration if both sides
// are feasible.
func (p *pathCtx) branch(c *Term) bool {
	if c.IsConst() {
		return c.B
	}
	p.branches++
	if p.pos < len(p.prefix) {
		d := p.prefix[p.pos]
		p.pos++
		if d.IsVal {
			panic(fmt.Sprintf("engine: decision kind mismatch at %d (non-deterministic re-execution)", p.pos-1))
		}
		p.taken = append(p.taken, d)
		if d.B {
			p.solver.Assert(c)
		} else {
			p.solver.Assert(Not(c))
		}
		return d.B
	}
	rT := p.solver.CheckWith(c)
	var rF SatResult
	if rT == Unsat {
		rF = Sat
	} else {
		rF = p.solver.CheckWith(Not(c))
	}
	if rT == Unknown || rF == Unknown {
		p.job.noteUnknown()
	}
	var take bool
	switch {
	case rT != Unsat && rF != Unsat:
		take = true
		p.job.push(append(append([]Decision{}, p.taken...), Decision{B: false}))
	case rT != Unsat:
		take = true
	case rF != Unsat:
		take = false
	default:
		panic(pathEnd{"infeasible", "both sides unsat"})
	}
	p.taken = append(p.taken, Decision{B: take})
	p.pos++
	if take {
		p.solver.Assert(c)
	} else {
		p.solver.Assert(Not(c))
	}
	return take
}

const concretizeLimit = 128

// concretizeReal enumerates the feasible values of a term and forks over them.
func (p *pathCtx) concretizeReal(t *Term, why string) *big.Rat {
	if t.IsConst() {
		if t.Sort == SInt {
			return new(big.Rat).SetInt(t.I)
		}
		return t.R
	}
	p.branches++
	constT := func(v *big.Rat) *Term {
		if t.Sort == SInt {
			return BigC(v.Num())
		}
		return RatC(v)
	}
	if p.pos < len(p.prefix) {
		d := p.prefix[p.pos]
		p.pos++
		if !d.IsVal {
			panic(fmt.Sprintf("engine: decision kind mismatch at %d (non-deterministic re-execution)", p.pos-1))
		}
		p.taken = append(p.taken, d)
		p.solver.Assert(Eq(t, constT(d.V)))
		return d.V
	}
	var vals []*big.Rat
	p.solver.Push()
	for {
		r := p.solver.Check()
		if r == Unknown {
			p.solver.Pop()
			panic(unsupportedf("concretize (%s): solver unknown", why))
		}
		if r == Unsat {
			break
		}
		if len(vals) >= concretizeLimit {
			p.solver.Pop()
			panic(unsupportedf("concretize (%s): more than %d feasible values of %s", why, concretizeLimit, t))
		}
		m, err := p.solver.GetValues([]string{t.String()})
		if err != nil {
			p.solver.Pop()
			panic(unsupportedf("concretize (%s): %v", why, err))
		}
		var v *big.Rat
		for _, s := range m {
			v, err = evalNum(s)
		}
		if v == nil || err != nil {
			p.solver.Pop()
			panic(unsupportedf("concretize (%s): cannot read value: %v", why, err))
		}
		vals = append(vals, v)
		p.solver.Assert(Not(Eq(t, constT(v))))
	}
	p.solver.Pop()
	if len(vals) == 0 {
		panic(pathEnd{"infeasible", "concretize: no value"})
	}
	sort.Slice(vals, func(a, b int) bool { return vals[a].Cmp(vals[b]) < 0 })
	for k := len(vals) - 1; k >= 1; k-- {
		p.job.push(append(append([]Decision{}, p.taken...), Decision{IsVal: true, V: vals[k]}))
	}
	d := Decision{IsVal: true, V: vals[0]}
	p.taken = append(p.taken, d)
	p.pos++
	p.solver.Assert(Eq(t, constT(d.V)))
	return d.V
}

func (p *pathCtx) concretize(t *Term, why string) *big.Int {
	r := p.concretizeReal(t, why)
	if !r.IsInt() {
		panic(unsupportedf("concretize (%s): non-integer value", why))
	}
	return r.Num()
}

// model reads the values of all named inputs after a Sat answer.
func (p *pathCtx) model() (map[string]interface{}, error) {
	names := make([]string, len(p.inputs))
	for i, in := range p.inputs {
		names[i] = in.Smt
	}
	vals, err := p.solver.GetValues(names)
	if err != nil {
		return nil, err
	}
	out := map[string]interface{}{}
	for _, in := range p.inputs {
		s, ok := vals[in.Smt]
		if !ok {
			continue
		}
		switch in.Sort {
		case SBool:
			out[in.Name] = s == "true"
		default:
			r, err := evalNum(s)
			if err != nil {
				return nil, err
			}
			out[in.Name] = ratToJSON(r)
		}
	}
	return out, nil
}

// findModel looks for a model of PC ∧ extra, preferring one that also
// satisfies the margin constraints (robust native replay).
func (p *pathCtx) findModel(extra *Term) (map[string]interface{}, bool, SatResult) {
	if len(p.margin) > 0 {
		p.solver.Push()
		p.solver.Assert(extra)
		for _, m := range p.margin {
			p.solver.Assert(m)
		}
		r := p.solver.Check()
		if r == Sat {
			m, err := p.model()
			p.solver.Pop()
			if err == nil {
				return m, true, Sat
			}
		} else {
			p.solver.Pop()
		}
	}
	p.solver.Push()
	p.solver.Assert(extra)
	r := p.solver.Check()
	if r != Sat {
		p.solver.Pop()
		return nil, false, r
	}
	m, err := p.model()
	p.solver.Pop()
	if err != nil {
		return nil, false, Unknown
	}
	return m, false, Sat
}

// moreModels returns up to n further models of PC ∧ extra in which every wide
// numeric input differs from its value in the models found so far (a solver's
// first model tends to sit on a boundary, e.g. an exact float edge, that the
// native run resolves the other way).
func (p *pathCtx) moreModels(extra *Term, first map[string]interface{}, n int) []map[string]interface{} {
	var out []map[string]interface{}
	prev := []map[string]interface{}{first}
	for k := 0; k < n; k++ {
		p.solver.Push()
		p.solver.Assert(extra)
		any := false
		for _, in := range p.inputs {
			if !in.Wide || in.Sort != SInt {
				continue
			}
			for _, m := range prev {
				v, ok := m[in.Name]
				if !ok {
					continue
				}
				var c *Term
				switch vv := v.(type) {
				case int64:
					c = IntC(vv)
				case string:
					if b, ok := new(big.Int).SetString(vv, 10); ok {
						c = BigC(b)
					}
				}
				if c != nil {
					p.solver.Assert(mk(SBool, "not", mk(SBool, "=", in.T, c)))
					any = true
				}
			}
		}
		if !any {
			p.solver.Pop()
			break
		}
		if p.solver.Check() != Sat {
			p.solver.Pop()
			break
		}
		m, err := p.model()
		p.solver.Pop()
		if err != nil {
			break
		}
		out = append(out, m)
		prev = append(prev, m)
	}
	return out
}

// checkAssert discharges one assertion instance on this path.
func (p *pathCtx) checkAssert(id string, c *Term) {
	p.checked[id]++
	p.job.noteAssert(id)
	if c.IsConst() && c.B {
		return
	}
	if !p.job.wantCandidate(id) {
		// enough candidates for this assertion already; still need the verdict
		r := p.solver.CheckWith(Not(c))
		if r == Unknown {
			p.inconclusive = append(p.inconclusive, "assert "+id+": solver unknown")
			p.job.noteUnknown()
		}
		if r == Sat {
			p.job.noteFailing(id)
		}
		p.assume(c)
		return
	}
	m, margin, r := p.findModel(Not(c))
	switch r {
	case Sat:
		p.job.noteFailing(id)
		p.job.tookCandidate(id)
		p.cands = append(p.cands, Candidate{AssertID: id, Kind: "assert", Model: m, Margin: margin, Path: p.pathString()})
		for _, m2 := range p.moreModels(Not(c), m, 2) {
			p.cands = append(p.cands, Candidate{AssertID: id, Kind: "assert", Model: m2, Margin: false, Path: p.pathString()})
		}
	case Unknown:
		p.inconclusive = append(p.inconclusive, "assert "+id+": solver unknown")
		p.job.noteUnknown()
	}
	// continue under the assumption that the assertion held
	if c.IsConst() {
		panic(pathEnd{"pruned", "assertion " + id + " is false on this path"})
	}
	if p.solver.CheckWith(c) == Unsat {
		panic(pathEnd{"pruned", "assertion " + id + " fails on every input of this path"})
	}
	p.solver.Assert(c)
}

// finish runs the end-of-path obligation check; it returns the list of
// reasons why this path's verdicts are inconclusive (empty = faithful).
func (p *pathCtx) finish() []string {
	out := p.inconclusive
	if len(p.oblig) > 0 {
		var neg []*Term
		for _, o := range p.oblig {
			neg = append(neg, Not(o))
		}
		r := p.solver.CheckWith(Or(neg...))
		if r != Unsat {
			// find which
			why := "side condition"
			for k, o := range p.oblig {
				if p.solver.CheckWith(Not(o)) != Unsat {
					why = p.obligWhy[k]
					break
				}
			}
			out = append(out, "overflow/side-condition: "+why)
		}
	}
	return out
}
