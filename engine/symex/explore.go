package symex

// Re-execution DFS over decision prefixes, shared between workers.

import (
	"fmt"
	"go/token"
	"io"
	"os"
	"runtime"
	"runtime/debug"
	"sort"
	"sync"
	"time"

	"golang.org/x/tools/go/ssa"
)

type JobConfig struct {
	Harness     string // function name in Pkg
	Pkg         string // package path
	Shape       []int
	Workers     int
	SolverKind  string
	TimeoutMs   int
	StepBudget  int
	MaxPaths    int
	MaxCandPer  int // candidates kept per assertion id
	TickBound   int
	KnownOpen   []string
	PanicIsViol bool
	SolverLog   io.Writer
	Deadline    time.Time
	Concrete    map[string]interface{} // concrete-mode inputs (conformance runs)
}

type JobResult struct {
	Harness      string                   `json:"harness"`
	Shape        []int                    `json:"shape"`
	Paths        int                      `json:"paths"`
	Ends         map[string]int           `json:"path_ends"`
	Branches     int                      `json:"branch_decisions"`
	Queries      int                      `json:"queries"`
	SolverTimeS  float64                  `json:"solver_time_s"`
	Unknown      int                      `json:"unknown"`
	SolverErrors int                      `json:"solver_errors"`
	Asserts      map[string]int           `json:"assert_instances"`
	Failing      map[string]int           `json:"failing_instances"`
	Reach        map[string]int           `json:"reach"`
	Candidates   []Candidate              `json:"-"`
	Inconclusive map[string]int           `json:"inconclusive"`
	Unsupported  map[string]int           `json:"unsupported"`
	Panics       map[string]int           `json:"panics"`
	Functions    map[string]bool          `json:"-"`
	Stubs        map[string]bool          `json:"-"`
	Truncated    bool                     `json:"truncated"`
	WallS        float64                  `json:"wall_s"`
	SampleModels []map[string]interface{} `json:"-"`
	GoStmts      int                      `json:"go_statements_skipped"`
	Journal      []string                 `json:"-"`
}

type Job struct {
	cfg  JobConfig
	prog *Program
	fn   *ssa.Function

	mu      sync.Mutex
	work    [][]Decision
	active  int
	cond    *sync.Cond
	res     *JobResult
	candPer map[string]int
	stop    bool
}

func (j *Job) push(prefix []Decision) {
	j.mu.Lock()
	j.work = append(j.work, prefix)
	j.mu.Unlock()
	j.cond.Signal()
}

func (j *Job) noteUnknown() {}

func (j *Job) noteAssert(id string) {
	j.mu.Lock()
	j.res.Asserts[id]++
	j.mu.Unlock()
}
func (j *Job) noteFailing(id string) {
	j.mu.Lock()
	j.res.Failing[id]++
	j.mu.Unlock()
}

func (j *Job) wantCandidate(id string) bool {
	j.mu.Lock()
	defer j.mu.Unlock()
	return j.candPer[id] < j.cfg.MaxCandPer
}

func (j *Job) tookCandidate(id string) {
	j.mu.Lock()
	j.candPer[id]++
	j.mu.Unlock()
}

func (j *Job) reached(id string) bool {
	j.mu.Lock()
	defer j.mu.Unlock()
	return j.res.Reach[id] > 0
}

func (j *Job) isKnownOpen(id string) bool {
	for _, k := range j.cfg.KnownOpen {
		if k == id {
			return true
		}
	}
	return false
}

// next blocks until a prefix is available or all workers are idle.
func (j *Job) next() ([]Decision, bool) {
	j.mu.Lock()
	defer j.mu.Unlock()
	for {
		if j.stop {
			return nil, false
		}
		if n := len(j.work); n > 0 {
			p := j.work[n-1]
			j.work = j.work[:n-1]
			j.active++
			return p, true
		}
		if j.active == 0 {
			j.cond.Broadcast()
			return nil, false
		}
		j.cond.Wait()
	}
}

func (j *Job) done() {
	j.mu.Lock()
	j.active--
	if j.active == 0 && len(j.work) == 0 {
		j.cond.Broadcast()
	}
	j.mu.Unlock()
}

// RunJob explores one (harness, shape).
func (prog *Program) RunJob(cfg JobConfig) (*JobResult, error) {
	pkg := prog.SSA.ImportedPackage(cfg.Pkg)
	if pkg == nil {
		return nil, fmt.Errorf("package %s not loaded", cfg.Pkg)
	}
	fn := pkg.Func(cfg.Harness)
	if fn == nil {
		return nil, fmt.Errorf("harness %s.%s not found", cfg.Pkg, cfg.Harness)
	}
	if cfg.Workers <= 0 {
		cfg.Workers = 1
	}
	if cfg.StepBudget == 0 {
		cfg.StepBudget = 2_000_000
	}
	if cfg.MaxCandPer == 0 {
		cfg.MaxCandPer = 4
	}
	if cfg.TimeoutMs == 0 {
		cfg.TimeoutMs = 20000
	}
	if cfg.SolverKind == "" {
		cfg.SolverKind = "z3-new"
	}
	j := &Job{cfg: cfg, prog: prog, fn: fn, candPer: map[string]int{}}
	j.cond = sync.NewCond(&j.mu)
	j.res = &JobResult{
		Harness: cfg.Harness, Shape: cfg.Shape,
		Ends: map[string]int{}, Asserts: map[string]int{}, Failing: map[string]int{}, Reach: map[string]int{},
		Inconclusive: map[string]int{}, Unsupported: map[string]int{}, Panics: map[string]int{},
		Functions: map[string]bool{}, Stubs: map[string]bool{},
	}
	j.work = [][]Decision{{}}
	start := time.Now()
	var wg sync.WaitGroup
	errs := make(chan error, cfg.Workers)
	for w := 0; w < cfg.Workers; w++ {
		wg.Add(1)
		go func(w int) {
			defer wg.Done()
			var slog io.Writer
			if w == 0 {
				slog = cfg.SolverLog
			}
			solver, err := StartSolver(cfg.SolverKind, cfg.TimeoutMs, slog)
			if err != nil {
				errs <- err
				j.mu.Lock()
				j.stop = true
				j.mu.Unlock()
				j.cond.Broadcast()
				return
			}
			defer func() {
				j.mu.Lock()
				j.res.Queries += solver.Queries
				j.res.Unknown += solver.Unknown
				j.res.SolverErrors += solver.Errors
				j.res.SolverTimeS += solver.Time.Seconds()
				j.mu.Unlock()
				solver.Close()
			}()
			for {
				prefix, ok := j.next()
				if !ok {
					return
				}
				j.runPath(solver, prefix)
				j.done()
			}
		}(w)
	}
	wg.Wait()
	select {
	case err := <-errs:
		return nil, err
	default:
	}
	j.res.WallS = time.Since(start).Seconds()
	sort.Slice(j.res.Candidates, func(a, b int) bool {
		ca, cb := j.res.Candidates[a], j.res.Candidates[b]
		if ca.AssertID != cb.AssertID {
			return ca.AssertID < cb.AssertID
		}
		if ca.Margin != cb.Margin {
			return ca.Margin
		}
		return ca.Path < cb.Path
	})
	return j.res, nil
}

type panicInfo struct {
	val   interface{}
	stack string
}

func (j *Job) runPath(solver *Solver, prefix []Decision) {
	p := newPathCtx(j, solver, prefix)
	base := solver.depth
	solver.Push()
	i := j.prog.newInterp(p)
	end := "return"
	var endMsg string
	func() {
		defer func() {
			r := recover()
			if r == nil {
				return
			}
			switch r := r.(type) {
			case pathEnd:
				end, endMsg = r.kind, r.msg
			case unsupported:
				end, endMsg = "unsupported", r.msg
			case exitPanic:
				end = "exit"
			case targetPanic:
				end, endMsg = "panic", "panic: "+toString(r.v)
			case runtime.Error:
				end, endMsg = "panic", "runtime error: "+r.Error()
				if _, ok := r.(targetRuntimeError); !ok && os.Getenv("VERIF_DEBUG") != "" {
					endMsg += "\n" + string(debug.Stack())
				}
			case string:
				end, endMsg = "panic", r
			default:
				end, endMsg = "panic", fmt.Sprintf("%T: %v", r, r)
			}
			if os.Getenv("VERIF_DEBUG") != "" && (end == "panic" || end == "unsupported") {
				fmt.Fprintf(os.Stderr, "[debug] path %s ended %s: %s\n  at %s\n", p.pathString(), end, endMsg, i.where())
			}
		}()
		i.initGlobals()
		call(i, nil, token.NoPos, j.fn, nil)
	}()
	var incon []string
	if end == "panic" && j.cfg.PanicIsViol {
		m, margin, r := p.findModel(TTrue)
		if r == Sat {
			if j.wantCandidate("no-panic") {
				j.tookCandidate("no-panic")
				p.cands = append(p.cands, Candidate{AssertID: "no-panic", Kind: "panic", Msg: endMsg, Model: m, Margin: margin, Path: p.pathString()})
				// the first model tends to sit on a float edge the native run resolves the other way:
				// offer two more in which every wide input differs
				for _, m2 := range p.moreModels(TTrue, m, 2) {
					p.cands = append(p.cands, Candidate{AssertID: "no-panic", Kind: "panic", Msg: endMsg, Model: m2, Margin: false, Path: p.pathString()})
				}
			}
			j.noteFailing("no-panic")
		}
	}
	if end == "return" || end == "exit" || end == "panic" || end == "pruned" {
		incon = p.finish()
	}
	var sample map[string]interface{}
	if end == "return" {
		j.mu.Lock()
		need := len(j.res.SampleModels) < 3
		j.mu.Unlock()
		if need {
			if m, _, r := p.findModel(TTrue); r == Sat {
				sample = m
			}
		}
	}
	solver.PopTo(base)

	j.mu.Lock()
	defer j.mu.Unlock()
	r := j.res
	r.Paths++
	r.Ends[end]++
	r.Branches += len(p.taken)
	r.GoStmts += p.goStmts
	for k := range p.reach {
		r.Reach[k]++
	}
	for _, s := range incon {
		r.Inconclusive[s]++
	}
	if end == "unsupported" {
		r.Unsupported[endMsg]++
	}
	if end == "budget" {
		r.Inconclusive["step budget exceeded (unwinding bound hit)"]++
	}
	if end == "panic" {
		msg := endMsg
		if len(msg) > 300 {
			msg = msg[:300]
		}
		r.Panics[msg]++
	}
	r.Candidates = append(r.Candidates, p.cands...)
	if sample != nil {
		r.SampleModels = append(r.SampleModels, sample)
	}
	for f := range i.funcsSeen {
		r.Functions[f] = true
	}
	for f := range i.stubsSeen {
		r.Stubs[f] = true
	}
	if j.cfg.MaxPaths > 0 && r.Paths >= j.cfg.MaxPaths {
		r.Truncated = true
		j.stop = true
		j.cond.Broadcast()
	}
	if !j.cfg.Deadline.IsZero() && time.Now().After(j.cfg.Deadline) {
		r.Truncated = true
		j.stop = true
		j.cond.Broadcast()
	}
}
