package symex

// One long-lived SMT solver process per worker, driven over stdin/stdout with
// push/pop.  Any "(error" line, "unknown" or timeout makes the query
// inconclusive.

import (
	"bufio"
	"fmt"
	"io"
	"math/big"
	"os/exec"
	"strings"
	"time"
)

type SatResult int

const (
	Unsat SatResult = iota
	Sat
	Unknown
)

func (r SatResult) String() string { return [...]string{"unsat", "sat", "unknown"}[r] }

type Solver struct {
	Name    string
	cmd     *exec.Cmd
	in      io.WriteCloser
	out     *bufio.Reader
	Queries int
	Unknown int
	Errors  int
	Time    time.Duration
	log     io.Writer
	depth   int
}

// SolverSpec names a back end: "z3-new", "z3", "cvc5".
func StartSolver(kind string, timeoutMs int, log io.Writer) (*Solver, error) {
	var cmd *exec.Cmd
	switch kind {
	case "z3-new":
		cmd = exec.Command("z3-new", "-in", fmt.Sprintf("-t:%d", timeoutMs))
	case "z3":
		cmd = exec.Command("z3", "-in", fmt.Sprintf("-t:%d", timeoutMs))
	case "cvc5":
		cmd = exec.Command("cvc5", "--incremental", "--lang=smt2", fmt.Sprintf("--tlimit-per=%d", timeoutMs), "--produce-models")
	default:
		return nil, fmt.Errorf("unknown solver %q", kind)
	}
	in, err := cmd.StdinPipe()
	if err != nil {
		return nil, err
	}
	outp, err := cmd.StdoutPipe()
	if err != nil {
		return nil, err
	}
	cmd.Stderr = cmd.Stdout
	if err := cmd.Start(); err != nil {
		return nil, err
	}
	s := &Solver{Name: kind, cmd: cmd, in: in, out: bufio.NewReaderSize(outp, 1<<16), log: log}
	s.send("(set-option :print-success false)")
	s.send("(set-option :produce-models true)")
	s.send("(set-logic ALL)")
	return s, nil
}

func (s *Solver) send(line string) {
	if s.log != nil {
		fmt.Fprintln(s.log, line)
	}
	io.WriteString(s.in, line)
	io.WriteString(s.in, "\n")
}

func (s *Solver) Close() {
	if s == nil || s.cmd == nil {
		return
	}
	s.in.Close()
	s.cmd.Process.Kill()
	s.cmd.Wait()
}

func (s *Solver) Push() { s.send("(push 1)"); s.depth++ }
func (s *Solver) Pop()  { s.send("(pop 1)"); s.depth-- }

// PopTo pops to the given depth.
func (s *Solver) PopTo(d int) {
	for s.depth > d {
		s.Pop()
	}
}

func (s *Solver) Declare(name string, sort Sort) {
	s.send(fmt.Sprintf("(declare-const %s %s)", name, [...]string{"Bool", "Int", "Real"}[sort]))
}

func (s *Solver) Assert(t *Term) {
	s.send("(assert " + t.String() + ")")
}

// readResponse reads one complete response: a single atom line or a balanced
// s-expression.
func (s *Solver) readResponse() (string, error) {
	var b strings.Builder
	depth := 0
	started := false
	for {
		line, err := s.out.ReadString('\n')
		if err != nil {
			return b.String(), err
		}
		if s.log != nil {
			fmt.Fprint(s.log, "; <- ", line)
		}
		t := strings.TrimSpace(line)
		if t == "" && !started {
			continue
		}
		started = true
		b.WriteString(line)
		inStr := false
		for _, c := range line {
			switch {
			case c == '"':
				inStr = !inStr
			case inStr:
			case c == '(':
				depth++
			case c == ')':
				depth--
			}
		}
		if depth <= 0 {
			return strings.TrimSpace(b.String()), nil
		}
	}
}

func (s *Solver) Check() SatResult {
	start := time.Now()
	s.send("(check-sat)")
	resp, err := s.readResponse()
	s.Time += time.Since(start)
	s.Queries++
	if err != nil {
		s.Errors++
		return Unknown
	}
	switch resp {
	case "sat":
		return Sat
	case "unsat":
		return Unsat
	}
	if strings.Contains(resp, "(error") {
		s.Errors++
		// drain: an error response is followed by the check-sat answer in some
		// solvers; we cannot know, so treat as unknown and resynchronise with echo.
		s.resync()
		return Unknown
	}
	s.Unknown++
	return Unknown
}

func (s *Solver) resync() {
	s.send(`(echo "verif-sync")`)
	for i := 0; i < 1000; i++ {
		r, err := s.readResponse()
		if err != nil || strings.Contains(r, "verif-sync") {
			return
		}
	}
}

// CheckWith checks PC ∧ extra without changing the assertion stack.
func (s *Solver) CheckWith(extra *Term) SatResult {
	s.Push()
	s.Assert(extra)
	r := s.Check()
	s.Pop()
	return r
}

// GetValues returns the model values of the named variables after a Sat.
func (s *Solver) GetValues(names []string) (map[string]string, error) {
	out := map[string]string{}
	const chunk = 200
	for i := 0; i < len(names); i += chunk {
		j := i + chunk
		if j > len(names) {
			j = len(names)
		}
		s.send("(get-value (" + strings.Join(names[i:j], " ") + "))")
		resp, err := s.readResponse()
		if err != nil {
			return nil, err
		}
		if strings.Contains(resp, "(error") {
			return nil, fmt.Errorf("solver: %s", resp)
		}
		sx, _, err := parseSexp(resp, 0)
		if err != nil {
			return nil, err
		}
		for _, pair := range sx.list {
			if len(pair.list) != 2 {
				continue
			}
			out[pair.list[0].atom] = pair.list[1].render()
		}
	}
	return out, nil
}

type sexp struct {
	atom string
	list []*sexp
	isL  bool
}

func (s *sexp) render() string {
	if !s.isL {
		return s.atom
	}
	parts := make([]string, len(s.list))
	for i, e := range s.list {
		parts[i] = e.render()
	}
	return "(" + strings.Join(parts, " ") + ")"
}

func parseSexp(src string, pos int) (*sexp, int, error) {
	for pos < len(src) && (src[pos] == ' ' || src[pos] == '\n' || src[pos] == '\t' || src[pos] == '\r') {
		pos++
	}
	if pos >= len(src) {
		return nil, pos, fmt.Errorf("eof")
	}
	if src[pos] == '(' {
		pos++
		n := &sexp{isL: true}
		for {
			for pos < len(src) && (src[pos] == ' ' || src[pos] == '\n' || src[pos] == '\t' || src[pos] == '\r') {
				pos++
			}
			if pos >= len(src) {
				return nil, pos, fmt.Errorf("unbalanced")
			}
			if src[pos] == ')' {
				return n, pos + 1, nil
			}
			c, np, err := parseSexp(src, pos)
			if err != nil {
				return nil, np, err
			}
			n.list = append(n.list, c)
			pos = np
		}
	}
	start := pos
	for pos < len(src) && !strings.ContainsRune(" \n\t\r()", rune(src[pos])) {
		pos++
	}
	return &sexp{atom: src[start:pos]}, pos, nil
}

// evalNum evaluates a solver-printed numeric value such as "5", "(- 5)",
// "(/ 1.0 3.0)", "2.5" to a rational.
func evalNum(s string) (*big.Rat, error) {
	sx, _, err := parseSexp(s, 0)
	if err != nil {
		return nil, err
	}
	return evalSexp(sx)
}

func evalSexp(s *sexp) (*big.Rat, error) {
	if !s.isL {
		a := strings.TrimSuffix(s.atom, "?")
		r, ok := new(big.Rat).SetString(a)
		if !ok {
			return nil, fmt.Errorf("bad number %q", s.atom)
		}
		return r, nil
	}
	if len(s.list) == 0 {
		return nil, fmt.Errorf("empty")
	}
	op := s.list[0].atom
	var args []*big.Rat
	for _, e := range s.list[1:] {
		v, err := evalSexp(e)
		if err != nil {
			return nil, err
		}
		args = append(args, v)
	}
	switch {
	case op == "-" && len(args) == 1:
		return new(big.Rat).Neg(args[0]), nil
	case op == "-" && len(args) == 2:
		return new(big.Rat).Sub(args[0], args[1]), nil
	case op == "/" && len(args) == 2:
		if args[1].Sign() == 0 {
			return nil, fmt.Errorf("div0")
		}
		return new(big.Rat).Quo(args[0], args[1]), nil
	case op == "+" && len(args) == 2:
		return new(big.Rat).Add(args[0], args[1]), nil
	case op == "*" && len(args) == 2:
		return new(big.Rat).Mul(args[0], args[1]), nil
	case op == "to_real" && len(args) == 1:
		return args[0], nil
	}
	return nil, fmt.Errorf("cannot evaluate %s", s.render())
}
