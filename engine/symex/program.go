package symex

// Loading: /repo working tree + overlay harness files -> type-checked
// packages -> SSA.  Nothing is cached between runs.

import (
	"fmt"
	"go/types"
	"os"
	"strings"

	"golang.org/x/tools/go/packages"
	"golang.org/x/tools/go/ssa"
	"golang.org/x/tools/go/ssa/ssautil"
)

type Program struct {
	SSA            *ssa.Program
	Pkgs           []*packages.Package
	RepoPrefix     string
	uninitGlobals  map[*ssa.Global]bool
	errorStringT   types.Type
	errorStringPtr types.Type
	timeT          types.Type
	quantityT      types.Type
	LoadErrors     []string
}

var sinkPrefixes = []string{
	"github.com/sirupsen/logrus",
	"github.com/prometheus/",
	"k8s.io/klog",
	"github.com/alecthomas/kingpin", // command-line flags: every flag variable is a nil pointer until a harness sets it
}

func (P *Program) isSinkPkg(path string) bool {
	for _, p := range sinkPrefixes {
		if strings.HasPrefix(path, p) {
			return true
		}
	}
	return false
}

// third-party packages whose (cheap, self-contained) initialisers are run
var initAllow = map[string]bool{
	"k8s.io/apimachinery/pkg/api/errors": true, // knownReasons table read by IsConflict & co
	"github.com/aws/aws-sdk-go/aws/request": true, // throttle / retry code tables read by request.IsErrorThrottle & co
}

func (P *Program) runsInit(path string) bool { return P.isRepoPkg(path) || initAllow[path] }

func (P *Program) isRepoPkg(path string) bool {
	return path == P.RepoPrefix || strings.HasPrefix(path, P.RepoPrefix+"/")
}

// Load type-checks the packages matching patterns in dir with the overlay
// applied and builds SSA for them and all dependencies.
func Load(dir, repoPrefix string, overlay map[string][]byte, tags string, patterns ...string) (*Program, error) {
	cfg := &packages.Config{
		Mode: packages.NeedName | packages.NeedFiles | packages.NeedCompiledGoFiles | packages.NeedImports |
			packages.NeedDeps | packages.NeedTypes | packages.NeedSyntax | packages.NeedTypesInfo |
			packages.NeedTypesSizes | packages.NeedModule,
		Dir:        dir,
		Overlay:    overlay,
		BuildFlags: []string{"-tags=" + tags},
		Env:        append(os.Environ(), "GOFLAGS=-mod=mod", "GOPROXY=off", "GOSUMDB=off", "GOTOOLCHAIN=local"),
	}
	pkgs, err := packages.Load(cfg, patterns...)
	if err != nil {
		return nil, err
	}
	P := &Program{RepoPrefix: repoPrefix, Pkgs: pkgs, uninitGlobals: map[*ssa.Global]bool{}}
	packages.Visit(pkgs, nil, func(p *packages.Package) {
		for _, e := range p.Errors {
			P.LoadErrors = append(P.LoadErrors, e.Error())
		}
	})
	if len(P.LoadErrors) > 0 {
		return P, fmt.Errorf("package load errors: %s", strings.Join(P.LoadErrors, "; "))
	}
	prog, _ := ssautil.AllPackages(pkgs, ssa.InstantiateGenerics)
	prog.Build()
	P.SSA = prog

	if ep := prog.ImportedPackage("errors"); ep != nil {
		P.errorStringT = ep.Type("errorString").Type()
		P.errorStringPtr = types.NewPointer(P.errorStringT)
	}
	if tp := prog.ImportedPackage("time"); tp != nil {
		P.timeT = tp.Type("Time").Type()
	}
	if rp := prog.ImportedPackage("k8s.io/apimachinery/pkg/api/resource"); rp != nil {
		P.quantityT = rp.Type("Quantity").Type()
	}
	// globals of third-party packages that an initialiser assigns: reading one
	// is flagged because those initialisers are not run.
	for _, pkg := range prog.AllPackages() {
		if P.runsInit(pkg.Pkg.Path()) {
			continue
		}
		for _, m := range pkg.Members {
			f, ok := m.(*ssa.Function)
			if !ok || !strings.HasPrefix(f.Name(), "init") {
				continue
			}
			for _, b := range f.Blocks {
				for _, in := range b.Instrs {
					if st, ok := in.(*ssa.Store); ok {
						if g, ok := st.Addr.(*ssa.Global); ok {
							P.uninitGlobals[g] = true
						}
					}
				}
			}
		}
	}
	return P, nil
}

func (P *Program) newInterp(p *pathCtx) *interpreter {
	return &interpreter{
		P: P, prog: P.SSA, globals: map[*ssa.Global]*value{}, path: p,
		funcsSeen: map[string]bool{}, stubsSeen: map[string]bool{},
		chanKinds: map[interface{}]*chanModel{},
	}
}

// initGlobals runs the initialiser of the harness package (which runs the
// initialisers of the repo packages it imports; third-party ones are skipped).
func (i *interpreter) initGlobals() {
	pkg := i.path.job.fn.Pkg
	if init := pkg.Func("init"); init != nil {
		call(i, nil, 0, init, nil)
	}
}

func (P *Program) newErrorString(msg string) value {
	v := value(structure{msg})
	return &v
}

// newError builds an error interface value (*errors.errorString).
func (P *Program) newError(msg string) iface {
	return iface{t: P.errorStringPtr, v: P.newErrorString(msg)}
}

func fieldIndex(t types.Type, name string) int {
	st := t.Underlying().(*types.Struct)
	for k := 0; k < st.NumFields(); k++ {
		if st.Field(k).Name() == name {
			return k
		}
	}
	panic("no field " + name + " in " + t.String())
}
