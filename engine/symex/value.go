// Copyright 2013 The Go Authors. All rights reserved.
// Use of this source code is governed by a BSD-style
// license that can be found in the LICENSE file.

package symex

// Values
//
// All interpreter values are "boxed" in the empty interface, value.
// The range of possible dynamic types within value are:
//
// - bool
// - numbers (all built-in int/float/complex types are distinguished)
// - string
// - map[value]value --- maps for which  usesBuiltinMap(keyType)
//   *hashmap        --- maps for which !usesBuiltinMap(keyType)
// - chan value
// - []value --- slices
// - iface --- interfaces.
// - structure --- structs.  Fields are ordered and accessed by numeric indices.
// - array --- arrays.
// - *value --- pointers.  Careful: *value is a distinct type from *array etc.
// - *ssa.Function \
//   *ssa.Builtin   } --- functions.  A nil 'func' is always of type *ssa.Function.
//   *closure      /
// - tuple --- as returned by Return, Next, "value,ok" modes, etc.
// - iter --- iterators from 'range' over map or string.
// - bad --- a poison pill for locals that have gone out of scope.
// - rtype -- the interpreter's concrete implementation of reflect.Type
// - **deferred -- the address of a frame's defer stack for a Defer._Stack.
//
// Note that nil is not on this list.
//
// Pay close attention to whether or not the dynamic type is a pointer.
// The compiler cannot help you since value is an empty interface.

import (
	"bytes"
	"fmt"
	"go/types"
	"io"
	"strings"

	"golang.org/x/tools/go/ssa"
)

type value interface{}

type tuple []value

type array []value

type iface struct {
	t types.Type // never an "untyped" type
	v value
}

type structure []value

// For map, array, *array, slice, string or channel.
type iter interface {
	// next returns a Tuple (key, value, ok).
	// key and value are unaliased, e.g. copies of the sequence element.
	next() tuple
}

type closure struct {
	Fn  *ssa.Function
	Env []value
}

type bad struct{}

// nil-tolerant variant of types.Identical.
func sameType(x, y types.Type) bool {
	if x == nil {
		return y == nil
	}
	return y != nil && types.Identical(x, y)
}

// equals returns true iff x and y are equal according to Go's
// linguistic equivalence relation for type t.
// In a well-typed program, the dynamic types of x and y are
// guaranteed equal.
func equals(t types.Type, x, y value) bool {
	switch x := x.(type) {
	case bool:
		return x == y.(bool)
	case int:
		return x == y.(int)
	case int8:
		return x == y.(int8)
	case int16:
		return x == y.(int16)
	case int32:
		return x == y.(int32)
	case int64:
		return x == y.(int64)
	case uint:
		return x == y.(uint)
	case uint8:
		return x == y.(uint8)
	case uint16:
		return x == y.(uint16)
	case uint32:
		return x == y.(uint32)
	case uint64:
		return x == y.(uint64)
	case uintptr:
		return x == y.(uintptr)
	case float32:
		return x == y.(float32)
	case float64:
		return x == y.(float64)
	case complex64:
		return x == y.(complex64)
	case complex128:
		return x == y.(complex128)
	case string:
		return x == y.(string)
	case *value:
		return x == y.(*value)
	case chan value:
		return x == y.(chan value)
	case structure:
		ys := y.(structure)
		tStruct := t.Underlying().(*types.Struct)
		for i, n := 0, tStruct.NumFields(); i < n; i++ {
			if f := tStruct.Field(i); f.Name() != "_" {
				if !equals(f.Type(), x[i], ys[i]) {
					return false
				}
			}
		}
		return true
	case array:
		ya := y.(array)
		tElt := t.Underlying().(*types.Array).Elem()
		for i, xi := range x {
			if !equals(tElt, xi, ya[i]) {
				return false
			}
		}
		return true
	case iface:
		yi := y.(iface)
		return sameType(x.t, yi.t) && (x.t == nil || equals(x.t, x.v, yi.v))
	}
	if isSym(x) || isSym(y) {
		panic(unsupportedf("concrete equality on symbolic value (%T, %T)", x, y))
	}

	// Since map, func and slice don't support comparison, this
	// case is only reachable if one of x or y is literally nil
	// (handled in eqnil) or via interface{} values.
	panic(fmt.Sprintf("comparing uncomparable type %s", t))
}

// reflect.Value struct values don't have a fixed shape, since the
// payload can be a scalar or an aggregate depending on the instance.
// So store (and load) can't simply use recursion over the shape of the
// rhs value, or the lhs, to copy the value; we need the static type
// information.  (We can't make reflect.Value a new basic data type
// because its "structness" is exposed to Go programs.)

// load returns the value of type T in *addr.
func load(T types.Type, addr *value) value {
	switch T := T.Underlying().(type) {
	case *types.Struct:
		v := (*addr).(structure)
		a := make(structure, len(v))
		for i := range a {
			a[i] = load(T.Field(i).Type(), &v[i])
		}
		return a
	case *types.Array:
		v := (*addr).(array)
		a := make(array, len(v))
		for i := range a {
			a[i] = load(T.Elem(), &v[i])
		}
		return a
	default:
		return *addr
	}
}

// store stores value v of type T into *addr.
func store(T types.Type, addr *value, v value) {
	switch T := T.Underlying().(type) {
	case *types.Struct:
		lhs := (*addr).(structure)
		rhs := v.(structure)
		for i := range lhs {
			store(T.Field(i).Type(), &lhs[i], rhs[i])
		}
	case *types.Array:
		lhs := (*addr).(array)
		rhs := v.(array)
		for i := range lhs {
			store(T.Elem(), &lhs[i], rhs[i])
		}
	default:
		*addr = v
	}
}

// Prints in the style of built-in println.
// (More or less; in gc println is actually a compiler intrinsic and
// can distinguish println(1) from println(interface{}(1)).)
func writeValue(buf *bytes.Buffer, v value) {
	switch v := v.(type) {
	case nil, bool, int, int8, int16, int32, int64, uint, uint8, uint16, uint32, uint64, uintptr, float32, float64, complex64, complex128, string:
		fmt.Fprintf(buf, "%v", v)

	case *omap:
		buf.WriteString("map[")
		sep := ""
		if v != nil {
			for i, k := range v.keys {
				if v.dead[i] {
					continue
				}
				buf.WriteString(sep)
				sep = " "
				writeValue(buf, k)
				buf.WriteString(":")
				writeValue(buf, v.vals[i])
			}
		}
		buf.WriteString("]")

	case symInt, symBool, symFloat, symStr:
		buf.WriteString(symToString(v))

	case chan value:
		fmt.Fprintf(buf, "%v", v) // (an address)

	case *value:
		if v == nil {
			buf.WriteString("<nil>")
		} else {
			fmt.Fprintf(buf, "%p", v)
		}

	case iface:
		fmt.Fprintf(buf, "(%s, ", v.t)
		writeValue(buf, v.v)
		buf.WriteString(")")

	case structure:
		buf.WriteString("{")
		for i, e := range v {
			if i > 0 {
				buf.WriteString(" ")
			}
			writeValue(buf, e)
		}
		buf.WriteString("}")

	case array:
		buf.WriteString("[")
		for i, e := range v {
			if i > 0 {
				buf.WriteString(" ")
			}
			writeValue(buf, e)
		}
		buf.WriteString("]")

	case []value:
		buf.WriteString("[")
		for i, e := range v {
			if i > 0 {
				buf.WriteString(" ")
			}
			writeValue(buf, e)
		}
		buf.WriteString("]")

	case *ssa.Function, *ssa.Builtin, *closure:
		fmt.Fprintf(buf, "%p", v) // (an address)

	case tuple:
		// Unreachable in well-formed Go programs
		buf.WriteString("(")
		for i, e := range v {
			if i > 0 {
				buf.WriteString(", ")
			}
			writeValue(buf, e)
		}
		buf.WriteString(")")

	default:
		fmt.Fprintf(buf, "<%T>", v)
	}
}

// Implements printing of Go values in the style of built-in println.
func toString(v value) string {
	var b bytes.Buffer
	writeValue(&b, v)
	return b.String()
}

// ------------------------------------------------------------------------
// Iterators

type stringIter struct {
	*strings.Reader
	i int
}

func (it *stringIter) next() tuple {
	okv := make(tuple, 3)
	ch, n, err := it.ReadRune()
	ok := err != io.EOF
	okv[0] = ok
	if ok {
		okv[1] = it.i
		okv[2] = ch
	}
	it.i += n
	return okv
}
