//go:build verif

package main

import (
	"encoding/json"
	"io"
	"os"
	"strconv"

	"github.com/atlassian/escalator/pkg/controller"
	v1 "k8s.io/api/core/v1"
)

func init() { verifHarnesses["VerifHarness_C16_gate"] = VerifHarness_C16_gate }

// what the decoder hands to the start-up gate under the symbolic executor (natively the
// groups go through a real file and the real YAML/JSON decoder)
var verifDecoded []controller.NodeGroupOptions

func verifStubOsOpen(name string) (*os.File, error) { return nil, nil }
func verifStubUnmarshalNodeGroupOptions(r io.Reader) ([]controller.NodeGroupOptions, error) {
	return verifDecoded, nil
}

// VerifHarness_C16_gate: the start-up gate of cmd/main.go (setupNodeGroups) over a config
// file of K node groups. Each group is a safe baseline with at most one defect from a menu
// (plus symbolic min/max nodes). The process must go on only when every group is safe, and
// must go on when all are.
// shape: [groups]
func VerifHarness_C16_gate() {
	K := verifShape(0)
	groups := make([]controller.NodeGroupOptions, K)
	allSafe := true
	for k := range groups {
		ks := "g" + strconv.Itoa(k)
		o := controller.NodeGroupOptions{
			Name: "g" + ks, LabelKey: "k", LabelValue: ks, CloudProviderGroupName: "asg-" + ks,
			TaintUpperCapacityThresholdPercent: 45, TaintLowerCapacityThresholdPercent: 30, ScaleUpThresholdPercent: 70,
			SlowNodeRemovalRate: 1, FastNodeRemovalRate: 2,
			SoftDeleteGracePeriod: "1m", HardDeleteGracePeriod: "10m", ScaleUpCoolDownPeriod: "5m",
		}
		min, max := verifInt(ks+".min", -1, 3), verifInt(ks+".max", -1, 3)
		o.MinNodes, o.MaxNodes = int(min), int(max)
		safe := verifOr(verifAnd(min == 0, max == 0), verifAnd(verifAnd(min >= 0, max > 0), min < max))
		switch verifChoice(ks+".defect", 9) {
		case 1:
			o.SoftDeleteGracePeriod, o.HardDeleteGracePeriod = "10m", "10m"
			safe = false
		case 2:
			o.ScaleUpCoolDownPeriod = "0s"
			safe = false
		case 3:
			o.TaintEffect = v1.TaintEffect("Bogus")
			safe = false
		case 4:
			o.LabelKey = ""
			safe = false
		case 5:
			o.SlowNodeRemovalRate, o.FastNodeRemovalRate = 3, 2
			safe = false
		case 6:
			o.TaintLowerCapacityThresholdPercent = 45
			safe = false
		case 7:
			o.HardDeleteGracePeriod = "ten minutes"
			safe = false
		case 8:
			o.TaintEffect = v1.TaintEffectNoExecute // a valid alternative
		}
		groups[k] = o
		allSafe = verifAnd(allSafe, safe)
	}

	if nodegroupConfigFile == nil {
		nodegroupConfigFile = new(string)
	}
	if drymode == nil {
		drymode = new(bool)
	}
	verifDecoded = groups
	if !verifIsSymbolic() {
		f, err := os.CreateTemp("", "verif-nodegroups-*.json")
		if err != nil {
			panic(err)
		}
		defer os.Remove(f.Name())
		if err := json.NewEncoder(f).Encode(map[string]interface{}{"node_groups": groups}); err != nil {
			panic(err)
		}
		f.Close()
		*nodegroupConfigFile = f.Name()
	}

	var got []controller.NodeGroupOptions
	var err error
	fatal := verifCatchFatal(func() { got, err = setupNodeGroups() })
	admitted := !fatal && err == nil
	if admitted {
		verifAssert("C16.gate-admits-only-safe-configs", allSafe)
		verifAssert("C16.gate-passes-every-group-on", len(got) == K)
		verifReach("C16.gate-admitted")
	} else {
		verifAssert("C16.gate-admits-safe-configs", verifNot(allSafe))
		verifReach("C16.gate-refused")
	}
}
