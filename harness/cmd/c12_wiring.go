//go:build verif

package main

import (
	"strconv"
	"time"

	"github.com/atlassian/escalator/pkg/controller"
)

func init() { verifHarnesses["VerifHarness_C12_wiring"] = VerifHarness_C12_wiring }

// VerifHarness_C12_wiring: cmd/main.go hands each configured node group to the cloud provider
// under its own name and its own cloud group, with its own AWS settings (setupCloudProvider):
// what is done to a group's cloud group is decided by that group's configuration alone.
// shape: [groups]
func VerifHarness_C12_wiring() {
	K := verifShape(0)
	if cloudProviderID == nil {
		cloudProviderID = new(string)
	}
	*cloudProviderID = "aws"
	groups := make([]controller.NodeGroupOptions, K)
	for k := range groups {
		ks := "g" + strconv.Itoa(k)
		o := controller.NodeGroupOptions{Name: "name-" + ks, LabelKey: "k", LabelValue: ks, CloudProviderGroupName: "asg-" + ks}
		if verifChoice(ks+".fleet", 2) == 1 {
			o.AWS.LaunchTemplateID = "lt-" + ks
			o.AWS.LaunchTemplateVersion = strconv.Itoa(k + 1)
			o.AWS.FleetInstanceReadyTimeout = []string{"", "90s", "2m"}[verifChoice(ks+".timeout", 3)]
			o.AWS.Lifecycle = []string{"", "on-demand", "spot"}[verifChoice(ks+".lifecycle", 3)]
			o.AWS.InstanceTypeOverrides = []string{"t." + ks}
			o.AWS.ResourceTagging = verifChoice(ks+".tagging", 2) == 1
		}
		groups[k] = o
	}
	b, ok := setupCloudProvider(groups).(cloudProviderBuilder)
	verifAssert("C12.wiring-builder", ok && b.ProviderOpts.ProviderID == "aws" && len(b.ProviderOpts.NodeGroupConfigs) == K)
	if !ok || len(b.ProviderOpts.NodeGroupConfigs) != K {
		return
	}
	for k, cfg := range b.ProviderOpts.NodeGroupConfigs {
		o := groups[k]
		verifAssert("C12.wiring-own-name-and-cloud-group", cfg.Name == o.Name && cfg.GroupID == o.CloudProviderGroupName)
		want := time.Minute // the documented default
		switch o.AWS.FleetInstanceReadyTimeout {
		case "90s":
			want = 90 * time.Second
		case "2m":
			want = 2 * time.Minute
		}
		a := cfg.AWSConfig
		verifAssert("C12.wiring-own-aws-settings", a.LaunchTemplateID == o.AWS.LaunchTemplateID && a.LaunchTemplateVersion == o.AWS.LaunchTemplateVersion &&
			a.Lifecycle == o.AWS.Lifecycle && a.ResourceTagging == o.AWS.ResourceTagging && len(a.InstanceTypeOverrides) == len(o.AWS.InstanceTypeOverrides) &&
			(len(a.InstanceTypeOverrides) == 0 || a.InstanceTypeOverrides[0] == o.AWS.InstanceTypeOverrides[0]))
		verifAssert("C12.wiring-fleet-timeout", a.FleetInstanceReadyTimeout == want)
	}
	verifReach("C12.wiring")
}
