//go:build verif

package controller

import (
	v1 "k8s.io/api/core/v1"
	"k8s.io/apimachinery/pkg/api/resource"
)

func init() {
	verifHarnesses["VerifHarness_C05_scan"] = VerifHarness_C05_scan
}

// VerifHarness_C05_scan: the number of nodes a scale-up scan brings into
// service (untainted + newly requested) is sufficient and at most one above
// the minimum, including the scale-from-zero cases.
// shape: [mode (0 utilisation, 1 from zero with cached node size, 2 from zero, nothing cached,
//
//	3 from zero after the node size changed between two earlier scans,
//	4 from zero after the only scan that saw nodes was refused for exceeding max_nodes), nodes, tainted nodes, failure budget]
func VerifHarness_C05_scan() {
	mode, N, TN, F := verifShape(0), verifShape(1), verifShape(2), verifShape(3)
	w := newWorld(0)
	o := groupOpts(0)
	th := thresholdMenu[verifChoice("thresholds", len(thresholdMenu))]
	o.TaintLowerCapacityThresholdPercent, o.TaintUpperCapacityThresholdPercent, o.ScaleUpThresholdPercent = th.lower, th.upper, th.up
	T := int64(th.up)
	// the maxima are out of reach: the clamp is C04's subject
	o.MinNodes, o.MaxNodes = 0, 10000000
	if mode == 4 {
		o.MaxNodes = N - 1 // the scan that observes the nodes finds more of them than max_nodes and is refused
	}
	g := w.addGroup(o, 0, 10000000, 0)
	cpuReq := verifInt("cpuReq", 0, 40*w.cpuPerNode)
	memReq := verifInt("memReq", 0, 40*w.memPerNode)
	if mode == 4 {
		// what is asked later fits below the maximum (the clamp is C04's subject)
		verifAssume(verifAnd(100*cpuReq <= T*w.cpuPerNode*int64(N-1), 100*memReq <= T*w.memPerNode*int64(N-1)))
	}
	for i := 0; i < N; i++ {
		w.addNode(g, tcNone, false, 0, 0, int64(5000+i), true)
	}
	for i := 0; i < TN; i++ {
		w.addNode(g, tcEsc, false, 0, 10, int64(4000+i), true)
	}
	w.build()
	if mode == 3 {
		// the group is first observed with small nodes, then re-provisioned with the current size
		for _, n := range w.nodes {
			n.obj.Status.Allocatable = v1.ResourceList{
				v1.ResourceCPU:    *resource.NewMilliQuantity(w.cpuPerNode/4, resource.DecimalSI),
				v1.ResourceMemory: *resource.NewQuantity(w.memPerNode/4, resource.BinarySI),
			}
		}
		_ = w.ctrl.RunOnce()
		for _, n := range w.nodes {
			n.obj.Status.Allocatable = v1.ResourceList{
				v1.ResourceCPU:    *resource.NewMilliQuantity(w.cpuPerNode, resource.DecimalSI),
				v1.ResourceMemory: *resource.NewQuantity(w.memPerNode, resource.BinarySI),
			}
		}
	}
	if mode == 1 || mode == 3 || mode == 4 {
		// a scan observes the (last) node size; then every node goes away
		_ = w.ctrl.RunOnce()
		for _, n := range w.nodes {
			n.deleted = true
		}
		asg := w.AS.Group(o.CloudProviderGroupName)
		asg.Instances = nil
		asg.Desired = 0
	}
	p := w.addPod(g, -1, false, cpuReq, memReq, true)
	_ = p
	w.J.FailBudget = F // rejected untaint writes must not be counted as capacity
	mark := len(w.J.Calls)
	_ = w.ctrl.RunOnce()
	j := w.summarize(g, mark)
	brought := int64(j.untaints) + j.added

	switch mode {
	case 0:
		n := int64(N)
		above := verifOr(clearlyAbove(100*cpuReq, T*n*w.cpuPerNode), clearlyAbove(100*memReq, T*n*w.memPerNode))
		verifReachIf("C05.scan-above-threshold", above)
		suffCPU := 100*cpuReq <= T*w.cpuPerNode*(n+brought)
		nearCPU := 100*cpuReq-T*w.cpuPerNode*(n+brought) <= (T*w.cpuPerNode*(n+brought))>>30
		suffMem := 100*memReq <= T*w.memPerNode*(n+brought)
		nearMem := 100*memReq-T*w.memPerNode*(n+brought) <= (T*w.memPerNode*(n+brought))>>30
		// an injected failure of the cloud request itself (or of the refresh) excuses the scan
		cloudOK := j.increaseAttempts == j.increases && w.builder.Builds == 0
		verifAssert("C05.scan-sufficient-cpu", verifImplies(verifAnd(above, cloudOK), verifOr(suffCPU, verifKnown("K-C05", nearCPU))))
		verifAssert("C05.scan-sufficient-mem", verifImplies(verifAnd(above, cloudOK), verifOr(suffMem, verifKnown("K-C05", nearMem))))
		tight := verifOr(100*cpuReq > T*w.cpuPerNode*(n+brought-2), 100*memReq > T*w.memPerNode*(n+brought-2))
		verifAssert("C05.scan-at-most-one-extra", verifImplies(above, verifOr(brought < 2, tight)))
		if TN > 0 {
			verifReachIf("C05.scan-untainted-and-bought", verifAnd(j.untaints > 0, j.added > 0))
		}
	case 1, 3, 4:
		// from zero: the last observed node size stands in for capacity
		need := verifOr(cpuReq > 0, memReq > 0)
		suffCPU := 100*cpuReq <= T*w.cpuPerNode*brought
		nearCPU := 100*cpuReq-T*w.cpuPerNode*brought <= (T*w.cpuPerNode*brought)>>30
		suffMem := 100*memReq <= T*w.memPerNode*brought
		nearMem := 100*memReq-T*w.memPerNode*brought <= (T*w.memPerNode*brought)>>30
		verifAssert("C05.zero-cached-sufficient-cpu", verifImplies(need, verifOr(suffCPU, verifKnown("K-C05", nearCPU))))
		verifAssert("C05.zero-cached-sufficient-mem", verifImplies(need, verifOr(suffMem, verifKnown("K-C05", nearMem))))
		tight := verifOr(100*cpuReq > T*w.cpuPerNode*(brought-2), 100*memReq > T*w.memPerNode*(brought-2))
		verifAssert("C05.zero-cached-at-most-one-extra", verifImplies(need, verifOr(brought < 2, tight)))
		verifReachIf("C05.zero-cached", brought > 1)
		if mode == 3 {
			verifReach("C05.zero-after-size-change")
		}
		if mode == 4 {
			verifReachIf("C05.zero-after-refused-scan", brought > 1)
		}
	case 2:
		need := verifOr(cpuReq > 0, memReq > 0)
		verifAssert("C05.zero-uncached-exactly-one", verifImplies(need, brought == 1))
		verifReachIf("C05.zero-uncached", need)
	}
}
