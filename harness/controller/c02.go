//go:build verif

package controller

import "strconv"

func init() {
	verifHarnesses["VerifHarness_C02"] = VerifHarness_C02
	verifHarnesses["VerifHarness_C02_chain"] = VerifHarness_C02_chain
}

// VerifHarness_C02_chain: longer histories of one controller.
// variant 0: scan 1 is an accepted scale-up; its cool-down elapses; scan 2 meets an arbitrary
//
//	cluster and may get another scale-up accepted; scan 3 follows after a symbolic gap and must
//	leave the group alone while that second cool-down runs.
//
// variant 1: scan 1 is an accepted scale-up (cool-down 15 s); scan 2 follows within 2 s and its
//
//	cloud refresh fails once (escalator sleeps 5 s and rebuilds the provider): the lock must survive.
//
// shape: [nodes, variant]
func VerifHarness_C02_chain() {
	N, variant := verifShape(0), verifShape(1)
	w := newWorld(0)
	o := groupOpts(0)
	cd := int64(2)
	if variant == 1 {
		cd = 15
	}
	o.ScaleUpCoolDownPeriod = strconv.FormatInt(cd, 10) + "s"
	o.SoftDeleteGracePeriod, o.HardDeleteGracePeriod = "30s", "2m"
	o.MinNodes, o.MaxNodes = 1, N+12
	g := w.addGroup(o, 0, int64(N)+12, 0)
	w.symNodes("", g, N, []int{tcNone}, false, []int{0}, false)
	w.symPods("", g, 1, 1, false, int64(N)*w.cpuPerNode*80/100, false) // 80%: scale up by a little
	w.build()
	_ = w.ctrl.RunOnce()
	j1 := w.summarize(g, 0)
	verifAssert("C02.harness-scan1-accepted", j1.increases == 1)

	if variant == 1 {
		gap := verifInt("gap", 0, 2)
		verifSleepSeconds(gap)
		for j, p := range w.pods {
			w.setPodCPU(p, verifInt("p"+strconv.Itoa(j)+".cpu2", 0, 3*int64(N)*w.cpuPerNode))
		}
		w.J.FailBudget = 1
		mark := len(w.J.Calls)
		_ = w.ctrl.RunOnce()
		j2 := w.summarize(g, mark)
		// gap (<=2) + one 5 s retry sleep + 2 s of jitter stay inside the 15 s cool-down
		verifAssert("C02.lock-survives-provider-rebuild", j2.total == 0)
		if w.builder.Builds > 0 {
			verifReach("C02.provider-rebuilt-in-cooldown")
		}
		return
	}

	verifSleepSeconds(cd + 1)
	classes := []int{tcNone, tcForce}
	for i, n := range w.nodes {
		is := "n" + strconv.Itoa(i)
		w.retaint(n, classes[verifChoice(is+".class2", len(classes))], 0)
	}
	for j, p := range w.pods {
		w.setPodCPU(p, verifInt("p"+strconv.Itoa(j)+".cpu2", 0, 2*int64(N)*w.cpuPerNode))
	}
	s2 := w.snap(g)
	mark2 := len(w.J.Calls)
	_ = w.ctrl.RunOnce()
	j2 := w.summarize(g, mark2)
	accepted2 := j2.increases > 0
	verifReachIf("C02.second-scale-up-via-below-min", verifAnd(accepted2, s2.untainted < int64(o.MinNodes)))

	gap2 := verifInt("gap2", 0, cd+2)
	verifSleepSeconds(gap2)
	for j, p := range w.pods {
		w.setPodCPU(p, verifInt("p"+strconv.Itoa(j)+".cpu3", 0, 4*int64(N)*w.cpuPerNode))
	}
	mark3 := len(w.J.Calls)
	_ = w.ctrl.RunOnce()
	j3 := w.summarize(g, mark3)
	inside := verifAnd(accepted2, gap2+2 <= cd)
	verifAssert("C02.every-accepted-scale-up-is-cooled-down", verifImplies(inside, j3.total == 0))
	verifReachIf("C02.second-cooldown", inside)
}

// VerifHarness_C02: two scans of one controller. Scan 1 runs on a fixed
// overloaded group and requests capacity from the cloud (accepted or refused,
// per shape); after a symbolic gap, scan 2 meets an arbitrary cluster.
// Inside the cool-down of an accepted request scan 2 must not change the
// group; after it (or after a refused request) it must act again.
// shape: [nodes, scan-1 outcome (0 accepted, 1 refused by cloud max, 2 covered by untainting alone, 3 one node untainted and the rest refused), class menu for scan 2,
//
//	fleet (1 = launch-template mode: the cloud call of scan 1 blocks ~2 s until the instances are ready),
//	failure budget of scan 1 (any one API call of the scan, cloud or Kubernetes, may fail),
//	auto-discovered bounds with the cloud group's limits edited between the scans (0/1)]
func VerifHarness_C02() {
	N, refused, menu, fleet, F1 := verifShape(0), verifShape(1), verifShape(2), verifShape(3), verifShape(4)
	w := newWorld(0)
	o := groupOpts(0)
	cd := int64(2 + verifChoice("cooldown", 2)) // 2s or 3s (real sleeps in native replay)
	o.ScaleUpCoolDownPeriod = strconv.FormatInt(cd, 10) + "s"
	o.SoftDeleteGracePeriod, o.HardDeleteGracePeriod = "30s", "2m"
	o.MinNodes, o.MaxNodes = 1, N+6
	asgMax := int64(N + 6)
	extraT := 0 // freshly tainted nodes scan 1 can reuse
	switch refused {
	case 1:
		asgMax = int64(N)
	case 2:
		extraT = 2 // the scale-up of scan 1 is covered by untainting alone: nothing is asked of the cloud
	case 3:
		extraT = 1 // scan 1 untaints one node and the cloud refuses the rest (group at its maximum)
		asgMax = int64(N + extraT)
	}
	autoLimits := verifShape(5) == 1 // bounds auto-discovered; the cloud group's limits are edited between the scans
	if autoLimits {
		o.MinNodes, o.MaxNodes = 0, 0
	}
	if fleet == 1 {
		o.AWS.LaunchTemplateID, o.AWS.LaunchTemplateVersion = "lt-1", "1"
		o.AWS.FleetInstanceReadyTimeout = "2500ms"
	}
	asgMin := int64(0)
	if autoLimits {
		asgMin = 1
	}
	g := w.addGroup(o, asgMin, asgMax, 0)
	if fleet == 1 {
		w.EC2.ReadyAfter = 2 // ready at the second 1 s poll: the request is accepted ~2 s after it was made
	}
	w.symNodes("", g, N, []int{tcNone}, false, []int{0}, false)
	for t := 0; t < extraT; t++ {
		w.addNode(g, tcEsc, false, 0, 0, int64(1000+100*t), true)
	}
	// scan 1: twice the capacity requested -> scale-up (just the capacity when untainting is to cover it)
	perPod := int64(N) * w.cpuPerNode
	if refused == 2 {
		perPod = int64(N) * w.cpuPerNode / 2
	}
	w.symPods("", g, 2, 1, false, perPod, false)
	w.build()
	mark1 := len(w.J.Calls)
	w.J.FailBudget = F1
	w.J.Stamp = true
	tAccept := verifClockNanos()
	_ = w.ctrl.RunOnce()
	w.J.Stamp = false
	w.J.FailBudget = w.J.Failed
	for _, e := range w.J.Calls[mark1:] {
		if e.OK && (e.Kind == "SetDesiredCapacity" || e.Kind == "Attach") {
			tAccept = e.At // when the cloud accepted the (last part of the) request
		}
	}
	j1 := w.summarize(g, mark1)
	accepted := j1.increases > 0 || (fleet == 1 && j1.added > 0)
	if refused >= 1 {
		verifAssert("C02.harness-scan1-refused", !accepted)
		if refused >= 2 && j1.untaints > 0 {
			verifReach("C02.scan1-untainted-without-accepted-request")
		}
	} else if F1 == 0 {
		verifAssert("C02.harness-scan1-accepted", accepted)
	} else if accepted && w.J.Failed > 0 {
		verifReach("C02.accepted-in-a-scan-with-a-failed-call")
	}

	gap := verifInt("gap", 0, cd+2)
	verifSleepSeconds(gap)
	if autoLimits {
		asg1 := w.AS.Group(o.CloudProviderGroupName)
		switch verifChoice("limitsEdit", 3) {
		case 1:
			asg1.Max += 5
			asgMax += 5
		case 2:
			asg1.Min = 2
		}
	}
	minEff, maxEff := int64(o.MinNodes), int64(o.MaxNodes)
	if autoLimits {
		ag := w.AS.Group(o.CloudProviderGroupName)
		minEff, maxEff = ag.Min, ag.Max
	}

	// the cluster scan 2 sees
	classes := [][]int{{tcNone, tcEsc}, {tcNone, tcEsc, tcForce}}[menu]
	for i, n := range w.nodes {
		is := "n" + strconv.Itoa(i)
		class := classes[verifChoice(is+".class2", len(classes))]
		var age int64
		if class == tcEsc {
			age = verifInt(is+".taintAge2", 0, 300)
		}
		w.retaint(n, class, age)
	}
	for j, p := range w.pods {
		w.setPodCPU(p, verifInt("p"+strconv.Itoa(j)+".cpu2", 0, 2*int64(N)*w.cpuPerNode))
	}
	verifFreezeClock(w.base+gap+1, 0)
	s := w.snap(g)
	mark2 := len(w.J.Calls)
	_ = w.ctrl.RunOnce()
	verifUnfreezeClock()
	tAfter := verifClockNanos()
	j2 := w.summarize(g, mark2)

	// the cloud accepted the request at tAccept (read inside the fake, as the accepted call returns)
	// and scan 2 consulted the lock before tAfter: when less than the cool-down lies between the
	// two readings, scan 2 ran inside the cool-down -- to the nanosecond, also when the cloud call blocked
	inside := verifAnd(accepted, tAfter-tAccept < cd*1_000_000_000)
	verifAssert("C02.no-activity-in-cooldown", verifImplies(inside, j2.total == 0))
	verifReachIf("C02.in-cooldown-last-second", verifAnd(inside, gap+1 == cd))
	verifReachIf("C02.in-cooldown", inside)
	verifReachIf("C02.in-cooldown-below-min", verifAnd(inside, s.untainted < minEff))

	// after the cool-down, or when nothing was accepted, the group is acted on again
	free := verifOr(!accepted, gap >= cd+1)
	T := int64(o.ScaleUpThresholdPercent)
	// with the cloud group at its maximum no request can be made
	asg2 := w.AS.Group(o.CloudProviderGroupName)
	headroom := asg2.Desired < asgMax && asg2.Desired < maxEff
	overloaded := verifAnd(verifAnd(headroom, s.untainted >= minEff), verifAnd(s.untainted > 0, clearlyAbove(100*s.cpuReq, T*s.cpuCap)))
	verifAssert("C02.acts-again-after-cooldown(scale-up)", verifImplies(verifAnd(free, overloaded), j2.untaintAttempts+j2.increaseAttempts >= 1))
	belowMin := verifAnd(s.untainted < minEff, verifOr(headroom, s.tainted > 0))
	verifAssert("C02.acts-again-after-cooldown(below-min)", verifImplies(verifAnd(free, belowMin), j2.untaintAttempts+j2.increaseAttempts >= 1))
	lowBand := verifAnd(verifAnd(s.untainted > minEff, s.untainted > 0), clearlyBelow(100*s.cpuReq, int64(o.TaintLowerCapacityThresholdPercent)*s.cpuCap))
	verifAssert("C02.acts-again-after-cooldown(scale-down)", verifImplies(verifAnd(free, lowBand), j2.taintAttempts >= 1))
	verifReachIf("C02.released", verifAnd(accepted, verifAnd(gap >= cd+1, j2.total > 0)))
}
