//go:build verif

package controller

func init() {
	verifHarnesses["VerifHarness_C06"] = VerifHarness_C06
}

// strictly below / above with a guard band of one unit plus a 2^-40 fraction of the bound: at an
// exact band edge float64 (two roundings of 2^-53) may land on either side, and the property does
// not assign the edges; anything further out is decided.
func clearlyBelow(a, b int64) bool { return a+(b>>40)+1 <= b }
func clearlyAbove(a, b int64) bool { return a >= b+(b>>40)+1 }

// VerifHarness_C06: direction and taint rate follow the utilisation bands.
// shape: [nodes, pods, class menu, cordon symbolic(0/1), triggers (0 none, 1 scale_on_starve, 2 max_node_age), memory-bound (0/1), prior uneventful scan (0/1), auto-discovered bounds (0/1), 64 TiB nodes (0/1), unevenly packed nodes with one pending pod (0/1)]
func VerifHarness_C06() {
	N, P, menu, cord, trig := verifShape(0), verifShape(1), verifShape(2), verifShape(3), verifShape(4)
	w := newWorld(0)
	if verifShape(8) == 1 {
		w.memPerNode = 64 << 40 // very large machines: a group whose memory totals run into the hundreds of TiB
		w.memUnit = 1 << 30
	}
	o := groupOpts(0)
	th := thresholdMenu[verifChoice("thresholds", len(thresholdMenu))]
	o.TaintLowerCapacityThresholdPercent, o.TaintUpperCapacityThresholdPercent, o.ScaleUpThresholdPercent = th.lower, th.upper, th.up
	minEff := verifInt("min", 0, int64(N))
	maxEff := int64(N) + 3
	o.MinNodes, o.MaxNodes = int(minEff), int(maxEff)
	slow := verifInt("slow", 0, int64(N)+1)
	fast := verifInt("fast", 0, int64(N)+1)
	verifAssume(slow <= fast)
	o.SlowNodeRemovalRate, o.FastNodeRemovalRate = int(slow), int(fast)
	switch trig {
	case 1:
		o.ScaleOnStarve = true
	case 2:
		o.MaxNodeAge = []string{"1h", "100m", "-1h"}[verifChoice("maxNodeAge", 3)] // (a negative value validates and means "off")
	}
	auto := verifShape(7) == 1 // min_nodes/max_nodes left out: the bounds are the cloud group's own, re-read every scan
	asgMin0 := int64(0)
	if auto {
		o.MinNodes, o.MaxNodes = 0, 0
		asgMin0 = minEff
		if verifShape(6) == 1 {
			asgMin0 = verifInt("asg.min.before", 0, int64(N)) // what the earlier scan discovered
		}
	}
	if !auto && verifShape(10) == 1 {
		asgMin0 = verifInt("asg.min", 0, int64(N)) // the cloud group's own minimum is none of the band's business when min_nodes is configured
	}
	g := w.addGroup(o, asgMin0, maxEff, 0)
	classes := [][]int{{tcNone}, {tcNone, tcEsc}, {tcNone, tcEscGarbage, tcEscEmpty, tcForce}}[menu]
	w.symNodes("", g, N, classes, cord == 1, []int{0}, trig == 2)
	uneven := verifShape(9) == 1
	if uneven {
		// unevenly packed nodes: the first node is short of CPU, the second short of memory; a third
		// (pending) pod of symbolic size may fit on one of them, on neither, or on both
		gi := int64(1 << 30)
		w.addPod(g, 0, false, w.cpuPerNode*3/4, 1*gi, false)
		w.addPod(g, 1, false, 100, 12*gi, false)
		w.addPod(g, -1, false, verifInt("pending.cpu", 0, w.cpuPerNode+500), verifInt("pending.memGi", 0, 17)*gi, true)
	} else if verifShape(5) == 1 {
		// memory-bound: cpu fixed and small, memory symbolic
		w.symPodMem = true
		w.symPods("", g, P, 1, false, 10, false)
	} else {
		w.symPods("", g, P, 1, false, -3*w.cpuPerNode, false)
	}
	if verifShape(11) == 1 && len(w.pods) > 0 {
		w.terminating(w.pods[0], true) // the first listed pod is being deleted but still running: it counts like any other
	}
	w.build()
	if verifShape(6) == 1 {
		w.priorScan(g)
	}
	if auto {
		w.AS.Group(o.CloudProviderGroupName).Min = minEff // the cloud group's minimum as it is now
		if asgMin0 != minEff {
			verifReach("C06.discovered-minimum-changed")
		}
	}
	s := w.snap(g)
	mark := len(w.J.Calls)
	_ = w.ctrl.RunOnce()
	j := w.summarize(g, mark)

	normal := verifAnd(verifAnd(minEff <= s.total, s.total <= maxEff), verifAnd(s.untainted >= minEff, s.untainted > 0))
	lo, up, su := int64(th.lower), int64(th.upper), int64(th.up)
	memCap := s.memCap
	c, m := 100*s.cpuReq, 100*s.memReq
	if w.memUnit > 1 {
		// every memory figure is a whole number of units: compare in units (exact, and inside int64)
		m, memCap = 100*(s.memReq/w.memUnit), s.memCap/w.memUnit
	}
	below := func(t int64) bool { return verifAnd(clearlyBelow(c, t*s.cpuCap), clearlyBelow(m, t*memCap)) }
	atLeast := func(t int64) bool { return verifOr(clearlyAbove(c, t*s.cpuCap), clearlyAbove(m, t*memCap)) }
	bandFast := verifAnd(normal, below(lo))
	bandSlow := verifAnd(normal, verifAnd(atLeast(lo), below(up)))
	bandIdle := verifAnd(normal, verifAnd(atLeast(up), below(su)))
	bandUp := verifAnd(normal, atLeast(su))
	room := s.untainted - minEff
	taints := int64(j.taintAttempts)
	noCap := verifAnd(j.untaintAttempts == 0, j.increaseAttempts == 0)
	if trig == 0 {
		verifAssert("C06.fast-band", verifImplies(bandFast, verifAnd(taints == imin(fast, room), noCap)))
		verifAssert("C06.slow-band", verifImplies(bandSlow, verifAnd(taints == imin(slow, room), noCap)))
		verifAssert("C06.idle-band", verifImplies(bandIdle, verifAnd(taints == 0, noCap)))
		verifAssert("C06.scale-up-band", verifImplies(bandUp, verifAnd(taints == 0, j.untaintAttempts+j.increaseAttempts >= 1)))
	} else {
		// documented triggers: either the band's prescription, or a scale-up of at
		// least one node and no taint
		override := verifAnd(taints == 0, j.untaintAttempts+j.increaseAttempts >= 1)
		verifAssert("C06.fast-band/trigger", verifImplies(bandFast, verifOr(override, verifAnd(taints == imin(fast, room), noCap))))
		verifAssert("C06.slow-band/trigger", verifImplies(bandSlow, verifOr(override, verifAnd(taints == imin(slow, room), noCap))))
		verifAssert("C06.idle-band/trigger", verifImplies(bandIdle, verifOr(override, verifAnd(taints == 0, noCap))))
		verifAssert("C06.scale-up-band/trigger", verifImplies(bandUp, override))
		verifReachIf("C06.trigger-overrode", verifAnd(verifOr(bandFast, verifOr(bandSlow, bandIdle)), override))
		if trig == 2 {
			// max_node_age acts only when an untainted node has outlived it (a few seconds of clock slack)
			limit := int64(3600)
			if o.MaxNodeAge == "100m" {
				limit = 6000
			}
			if o.MaxNodeAge == "-1h" {
				limit = 1 << 40 // never
			}
			anyOld := false
			for _, n := range w.nodes {
				if n.group == g && n.class == tcNone {
					anyOld = verifOr(anyOld, verifAnd(verifNot(n.cordoned), n.createAge+5 >= limit))
				}
			}
			below := verifOr(bandFast, verifOr(bandSlow, bandIdle))
			verifAssert("C06.max-age-trigger-needs-an-old-node", verifImplies(verifAnd(below, override), anyOld))
		}
		if trig == 1 && uneven {
			// scale_on_starve is documented to act when a pending pod fits on no node: an override
			// below the scale-up band needs such a pod
			pend := w.pods[len(w.pods)-1]
			fitsSomewhere := false
			for i, n := range w.nodes {
				if n.group != g || n.class != tcNone || n.cordoned {
					continue
				}
				usedCPU, usedMem := int64(0), int64(0)
				for _, p := range w.pods {
					if p.node == i {
						usedCPU += p.cpu
						usedMem += p.mem
					}
				}
				fitsSomewhere = verifOr(fitsSomewhere, verifAnd(pend.cpu <= w.cpuPerNode-usedCPU, pend.mem <= w.memPerNode-usedMem))
			}
			below := verifOr(bandFast, verifOr(bandSlow, bandIdle))
			verifAssert("C06.starve-trigger-needs-an-unschedulable-pod", verifImplies(verifAnd(below, override), verifNot(fitsSomewhere)))
			verifReachIf("C06.pending-pod-fits-one-node-only", verifAnd(below, fitsSomewhere))
		}
	}
	verifReachIf("C06.fast", verifAnd(bandFast, taints > 0))
	verifReachIf("C06.slow", verifAnd(bandSlow, taints > 0))
	verifReachIf("C06.idle", bandIdle)
	verifReachIf("C06.up", bandUp)
}
