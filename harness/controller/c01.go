//go:build verif

package controller

import (
	"strconv"
	"time"
)

func init() {
	verifHarnesses["VerifHarness_C01"] = VerifHarness_C01
}

type graceMenu struct{ soft, hard string }

var graceMenus = []graceMenu{{"5m", "15m"}, {"30s", "2m"}, {"1s", "2s"}}

var c01Classes = [][]int{
	{tcNone, tcEsc, tcForce},
	{tcNone, tcEsc, tcEscGarbage, tcForce, tcEscAndForce, tcForeign, tcEscEmpty},
}

// removalAllowed is property C01's condition for node n, evaluated on the
// pre-scan snapshot; nowSec/nowNsec is the reaper's clock reading.
func (w *vWorld) removalAllowed(n *vNode, o *NodeGroupOptions, nowSec, nowNsec int64) bool {
	parsable := n.class == tcEsc || n.class == tcEscAndForce
	force := n.class == tcForce || n.class == tcEscAndForce
	empty := n.groupPods == 0
	// "more than the grace period in the past": time arithmetic as the time package does
	// it (a taint time in the far future saturates, it never counts as long ago)
	ageNs := time.Unix(nowSec, nowNsec).Sub(time.Unix(n.taintTs, 0))
	soft := o.SoftDeleteGracePeriodDuration()
	hard := o.HardDeleteGracePeriodDuration()
	a := parsable && empty
	b := parsable
	c := force && empty
	ok := verifOr(verifOr(verifAnd(a, ageNs > soft), verifAnd(b, ageNs > hard)), c)
	return verifAnd(verifNot(n.cordoned), ok)
}

// VerifHarness_C01: one scan over an arbitrary cluster state (within the
// shape); every cloud termination / Node deletion must be justified.
// shape: [nodes, pods, failure budget, class menu, band (0 below lower,1 mid,2 idle,3 symbolic requests), prior scan (0/1)]
func VerifHarness_C01() {
	N, P, F, menu, band := verifShape(0), verifShape(1), verifShape(2), verifShape(3), verifShape(4)
	w := newWorld(F)
	w.minTaintAge = -20000000000 // taint values up to ~630 years ahead of the clock
	o := groupOpts(0)
	gm := graceMenus[verifChoice("grace", len(graceMenus))]
	o.SoftDeleteGracePeriod, o.HardDeleteGracePeriod = gm.soft, gm.hard
	o.MinNodes, o.MaxNodes = 0, 10
	if verifShape(5) == 2 {
		o.MaxNodes = N // a node registering after the earlier scan puts the group over its maximum
	}
	g := w.addGroup(o, 0, 10, 0)
	classes := c01Classes[menu]
	prior := verifShape(5) >= 1
	type nodeIn struct {
		class    int
		cordoned bool
		age      int64
	}
	var ins []nodeIn
	for i := 0; i < N; i++ {
		is := strconv.Itoa(i)
		class := classes[verifChoice("n"+is+".class", len(classes))]
		cordoned := verifBool("n" + is + ".cordoned")
		taintAge := verifInt("n"+is+".taintAge", w.minTaintAge, 2000)
		ins = append(ins, nodeIn{class, cordoned, taintAge})
		if prior {
			// the earlier scan saw this node schedulable and untainted -- or (shape 2) freshly tainted,
			// so that the earlier scan went through its tainted-node bookkeeping
			pc := tcNone
			if verifShape(5) == 2 {
				pc = []int{tcNone, tcEsc}[verifChoice("n"+is+".priorClass", 2)]
			}
			w.addNode(g, pc, false, 0, 0, int64(5000+100*i), true)
		} else {
			w.addNode(g, class, cordoned, 0, taintAge, int64(5000+100*i), true)
		}
	}
	type podIn struct {
		node   int
		daemon bool
		static bool
		viaAff bool
		dying  bool // deletion requested, still running out its termination grace period: it still holds its node
	}
	var pins []podIn
	for j := 0; j < P; j++ {
		js := strconv.Itoa(j)
		node := verifChoice("p"+js+".node", N+2) - 2
		kinds := 2
		if j == 0 {
			kinds = 5 // the first pod may also be a static pod, select the group through node affinity, or be terminating
		}
		kind := verifChoice("p"+js+".daemon", kinds) // 0 ordinary, 1 daemonset-owned, 2 static pod selecting the group, 3 selected by a two-expression affinity term
		daemon := kind == 1
		pins = append(pins, podIn{node, daemon, kind == 2, kind == 3, kind == 4})
		var cpu int64
		switch band {
		case 0:
			cpu = 10
		case 1:
			cpu = int64(N) * w.cpuPerNode * 40 / 100 / int64(P)
		case 2:
			cpu = int64(N) * w.cpuPerNode * 60 / 100 / int64(P)
		default:
			cpu = verifInt("p"+js+".cpu", 0, 3*w.cpuPerNode)
		}
		if prior {
			// in the earlier scan every pod sat on the first node
			w.addPod(g, 0, false, cpu, 1<<20, false)
		} else {
			p := w.addPod(g, node, daemon, cpu, 1<<20, false)
			w.makeStatic(p, kind == 2)
			w.viaAffinity(p, kind == 3)
			w.terminating(p, kind == 4)
		}
	}
	w.build()
	if prior {
		// an earlier scan of the same controller (state carried in memory: node->pods map,
		// cached capacity, delta), then the cluster changes to the snapshot under test
		verifFreezeClock(w.base, 0)
		_ = w.ctrl.RunOnce()
		verifUnfreezeClock()
		for i, n := range w.nodes {
			w.retaint(n, ins[i].class, ins[i].age)
			n.obj.Spec.Unschedulable = ins[i].cordoned
			n.cordoned = ins[i].cordoned
		}
		if verifShape(5) == 2 && verifChoice("lateNode", 2) == 1 {
			w.addNode(g, tcNone, false, 0, 0, 10, true)
			verifReach("C01.group-over-its-maximum")
		}
		for j, p := range w.pods {
			w.movePod(p, pins[j].node, pins[j].daemon)
			w.makeStatic(p, pins[j].static)
			w.viaAffinity(p, pins[j].viaAff)
			w.terminating(p, pins[j].dying)
		}
	}
	cs := verifInt("clock.sec", 0, 3)
	cn := verifInt("clock.nsec", 0, 999999999)
	verifFreezeClock(w.base+cs, cn)
	mark := len(w.J.Calls)
	_ = w.ctrl.RunOnce()
	verifUnfreezeClock()

	opts := &w.groups[g]
	for k := mark; k < len(w.J.Calls); k++ {
		e := w.J.Calls[k]
		var n *vNode
		switch e.Kind {
		case "Terminate":
			n = w.nodeByInstance(e.Instance)
		case "NodeDelete":
			n = w.nodeByName(e.Node)
		default:
			continue
		}
		verifAssert("C01.target-is-listed-group-node", n != nil)
		if n == nil {
			continue
		}
		verifAssert("C01.removal-justified", w.removalAllowed(n, opts, w.base+cs, cn))
		ageNs := time.Unix(w.base+cs, cn).Sub(time.Unix(n.taintTs, 0))
		hard := opts.HardDeleteGracePeriodDuration()
		switch {
		case n.class == tcForce || n.class == tcEscAndForce:
			verifReach("C01.removed-force")
		case n.groupPods > 0:
			verifReach("C01.removed-hard-nonempty")
		default:
			verifReachIf("C01.removed-soft", ageNs <= hard)
		}
	}
	for _, n := range w.nodes {
		removed := false
		for k := mark; k < len(w.J.Calls); k++ {
			e := w.J.Calls[k]
			if (e.Kind == "Terminate" && e.Instance == n.instance) || (e.Kind == "NodeDelete" && e.Node == n.name) {
				removed = true
			}
		}
		if !removed {
			switch n.class {
			case tcNone, tcForeign:
				verifReach("C01.kept-untainted")
			case tcEscGarbage, tcEscEmpty:
				verifReach("C01.kept-unparsable")
			}
			verifReachIf("C01.kept-cordoned", n.cordoned)
		}
	}
}
