//go:build verif

package controller

import (
	"strconv"

	"github.com/atlassian/escalator/pkg/k8s"
	k8s_resource "github.com/atlassian/escalator/pkg/k8s/resource"
	v1 "k8s.io/api/core/v1"
	"k8s.io/apimachinery/pkg/api/resource"
	metav1 "k8s.io/apimachinery/pkg/apis/meta/v1"
	"k8s.io/apimachinery/pkg/labels"
	v1lister "k8s.io/client-go/listers/core/v1"
)

func init() {
	verifHarnesses["VerifHarness_C13_totals"] = VerifHarness_C13_totals
	verifHarnesses["VerifHarness_C13_capacity"] = VerifHarness_C13_capacity
	verifHarnesses["VerifHarness_C13_percent"] = VerifHarness_C13_percent
	verifHarnesses["VerifHarness_C14_pod"] = VerifHarness_C14_pod
	verifHarnesses["VerifHarness_C14_default"] = VerifHarness_C14_default
	verifHarnesses["VerifHarness_C14_node"] = VerifHarness_C14_node
	verifHarnesses["VerifHarness_C14_lister"] = VerifHarness_C14_lister
}

// symRequests builds a ResourceList with optional cpu / memory entries; returns
// the list and the milli-cpu / byte values the definition assigns to it.
func symRequests(name string, forms bool) (v1.ResourceList, int64, int64) {
	rl := v1.ResourceList{}
	var cpu, mem int64
	present := verifChoice(name+".present", 4) // bit0 cpu, bit1 mem
	order := verifChoice(name+".order", 2)
	addCPU := func() {
		if present&1 == 0 {
			return
		}
		v := verifInt(name+".cpu", 0, 1<<20)
		if forms && verifChoice(name+".cpuForm", 2) == 1 {
			rl[v1.ResourceCPU] = *resource.NewQuantity(v, resource.DecimalSI) // whole cores
			cpu = v * 1000
		} else {
			rl[v1.ResourceCPU] = *resource.NewMilliQuantity(v, resource.DecimalSI)
			cpu = v
		}
	}
	addMem := func() {
		if present&2 == 0 {
			return
		}
		v := verifInt(name+".mem", 0, 1<<40)
		if forms && verifChoice(name+".memForm", 2) == 1 {
			rl[v1.ResourceMemory] = *resource.NewMilliQuantity(v, resource.DecimalSI) // thousandths of a byte, rounded up
			mem = (v + 999) / 1000
		} else {
			rl[v1.ResourceMemory] = *resource.NewQuantity(v, resource.BinarySI)
			mem = v
		}
	}
	if order == 0 {
		addCPU()
		addMem()
	} else {
		addMem()
		addCPU()
	}
	return rl, cpu, mem
}

// VerifHarness_C13_totals: request and capacity totals equal the definition.
// shape: [pods, containers, init containers, overhead(0/1), quantity forms(0/1), pod phases free(0/1)]
func VerifHarness_C13_totals() {
	P, C, I, ovh, forms := verifShape(0), verifShape(1), verifShape(2), verifShape(3), verifShape(4)
	var pods []*v1.Pod
	var wantCPU, wantMem int64
	for p := 0; p < P; p++ {
		ps := "p" + strconv.Itoa(p)
		pod := &v1.Pod{ObjectMeta: metav1.ObjectMeta{Name: ps}}
		// the definition does not look at the phase (Succeeded/Failed pods never reach the listers)
		if verifShape(5) == 1 {
			pod.Status.Phase = []v1.PodPhase{"", v1.PodPending, v1.PodRunning}[verifChoice(ps+".phase", 3)]
		}
		var sumCPU, sumMem, initCPU, initMem int64
		for c := 0; c < C; c++ {
			rl, cpu, mem := symRequests(ps+".c"+strconv.Itoa(c), forms == 1)
			pod.Spec.Containers = append(pod.Spec.Containers, v1.Container{Resources: v1.ResourceRequirements{Requests: rl}})
			sumCPU += cpu
			sumMem += mem
		}
		for c := 0; c < I; c++ {
			rl, cpu, mem := symRequests(ps+".i"+strconv.Itoa(c), forms == 1)
			ic := v1.Container{Resources: v1.ResourceRequirements{Requests: rl}}
			if verifShape(5) == 1 && verifChoice(ps+".i"+strconv.Itoa(c)+".restartAlways", 2) == 1 {
				always := v1.ContainerRestartPolicyAlways // a "sidecar": the definition knows no such distinction
				ic.RestartPolicy = &always
			}
			pod.Spec.InitContainers = append(pod.Spec.InitContainers, ic)
			initCPU = imax(initCPU, cpu)
			initMem = imax(initMem, mem)
		}
		podCPU, podMem := imax(sumCPU, initCPU), imax(sumMem, initMem)
		if ovh == 1 && verifChoice(ps+".overhead", 2) == 1 {
			rl, cpu, mem := symRequests(ps+".o", false)
			pod.Spec.Overhead = rl
			podCPU += cpu
			podMem += mem
		}
		pods = append(pods, pod)
		wantCPU += podCPU
		wantMem += podMem
	}
	usage, err := k8s.CalculatePodsRequestedUsage(pods)
	verifAssert("C13.requests-no-error", err == nil)
	verifAssert("C13.cpu-request-total", usage.Total.MilliCPU == wantCPU)
	verifAssert("C13.mem-request-total", usage.Total.Memory == wantMem)
	verifReach("C13.totals")
}

// VerifHarness_C13_capacity: capacity = sum of allocatable over the given nodes.
// shape: [nodes, quantity forms(0/1)]
func VerifHarness_C13_capacity() {
	N, forms := verifShape(0), verifShape(1)
	var pods []*v1.Pod
	var nodes []*v1.Node
	var capCPU, capMem int64
	for n := 0; n < N; n++ {
		ns := "n" + strconv.Itoa(n)
		node := &v1.Node{ObjectMeta: metav1.ObjectMeta{Name: ns}}
		// what the machine has (status.capacity) is not what pods may use: it never counts
		node.Status.Capacity = v1.ResourceList{
			v1.ResourceCPU:    *resource.NewMilliQuantity(64000, resource.DecimalSI),
			v1.ResourceMemory: *resource.NewQuantity(1<<38, resource.BinarySI),
		}
		// neither does readiness: capacity is the allocatable of untainted uncordoned nodes
		switch verifChoice(ns+".ready", 3) {
		case 1:
			node.Status.Conditions = []v1.NodeCondition{{Type: v1.NodeReady, Status: v1.ConditionTrue}}
		case 2:
			node.Status.Conditions = []v1.NodeCondition{{Type: v1.NodeReady, Status: v1.ConditionUnknown}}
		}
		if verifChoice(ns+".hasAllocatable", 2) == 1 {
			rl, cpu, mem := symRequests(ns+".alloc", forms == 1)
			node.Status.Allocatable = rl
			capCPU += cpu
			capMem += mem
		}
		nodes = append(nodes, node)
	}
	capacity, err := k8s.CalculateNodesCapacity(nodes, pods)
	verifAssert("C13.capacity-no-error", err == nil)
	verifAssert("C13.cpu-capacity-total", capacity.Total.MilliCPU == capCPU)
	verifAssert("C13.mem-capacity-total", capacity.Total.Memory == capMem)
	verifReach("C13.capacity")
}

// VerifHarness_C13_percent: utilisation = 100 x requests / capacity per
// resource (capacity concrete per shape, requests symbolic).
// shape: [milli-cpu capacity, MiB capacity, request multiple (default 64)]
func VerifHarness_C13_percent() {
	capCPU := int64(verifShape(0))
	capMem := int64(verifShape(1)) << 20
	mult := int64(verifShape(2))
	if mult == 0 {
		mult = 64
	}
	cpuReq := verifInt("cpuReq", 0, mult*capCPU)
	memReq := verifInt("memReq", 0, mult*capMem)
	cpuPct, memPct, err := calcPercentUsage(
		*k8s_resource.NewCPUQuantity(cpuReq), *k8s_resource.NewMemoryQuantity(memReq),
		*k8s_resource.NewCPUQuantity(capCPU), *k8s_resource.NewMemoryQuantity(capMem), 2)
	verifAssert("C13.percent-no-error", err == nil)
	// |pct*cap - 100*req| <= 2^-40 * 100*req, evaluated in float64 (the tolerance
	// dwarfs the rounding of these two products)
	tol := 1.0 / (1 << 40)
	c := cpuPct * float64(capCPU)
	verifAssert("C13.cpu-percent", c >= float64(100*cpuReq)*(1-tol) && c <= float64(100*cpuReq)*(1+tol))
	m := memPct * float64(capMem)
	verifAssert("C13.mem-percent", m >= float64(100*memReq)*(1-tol) && m <= float64(100*memReq)*(1+tol))
	verifReach("C13.percent")
}

// ---- C14 ----------------------------------------------------------------------

const (
	c14Key   = "customer"
	c14Value = "shared"
)

// c14P prefixes the input names of the pod-shape builders (two pods in one harness)
var c14P = ""

func c14Owners(pod *v1.Pod) bool {
	daemon := false
	switch verifChoice(c14P+"owners", 5) {
	case 4:
		// owned by a DaemonSet, with another object as the managing controller
		yes := true
		pod.OwnerReferences = []metav1.OwnerReference{{Kind: "DaemonSet"}, {Kind: "ReplicaSet", Controller: &yes}}
		daemon = true
	case 1:
		pod.OwnerReferences = []metav1.OwnerReference{{Kind: "ReplicaSet"}}
	case 2:
		pod.OwnerReferences = []metav1.OwnerReference{{Kind: "DaemonSet"}}
		daemon = true
	case 3:
		pod.OwnerReferences = []metav1.OwnerReference{{Kind: "ReplicaSet"}, {Kind: "DaemonSet"}}
		daemon = true
	}
	return daemon
}

func c14Selector(pod *v1.Pod) (matches bool, any bool) {
	switch verifChoice(c14P+"selector", 4) {
	case 1:
		pod.Spec.NodeSelector = map[string]string{"other": c14Value}
		return false, true
	case 2:
		pod.Spec.NodeSelector = map[string]string{c14Key: "other"}
		return false, true
	case 3:
		pod.Spec.NodeSelector = map[string]string{"other": "x", c14Key: c14Value}
		return true, true
	}
	return false, false
}

var c14Ops = []v1.NodeSelectorOperator{v1.NodeSelectorOpIn, v1.NodeSelectorOpNotIn, v1.NodeSelectorOpExists}

// c14Affinity builds the affinity structure; returns whether some required
// match expression on the key uses In and lists the value, and whether any
// affinity rule at all is present.
func c14Affinity(pod *v1.Pod, terms, exprs int) (matches bool, anyRules bool) {
	level := verifChoice(c14P+"affinity.level", 5)
	switch level {
	case 0:
		return false, false
	case 1:
		pod.Spec.Affinity = &v1.Affinity{}
		return false, false
	case 2:
		pod.Spec.Affinity = &v1.Affinity{NodeAffinity: &v1.NodeAffinity{}}
		return false, true
	case 3:
		pod.Spec.Affinity = &v1.Affinity{NodeAffinity: &v1.NodeAffinity{
			PreferredDuringSchedulingIgnoredDuringExecution: []v1.PreferredSchedulingTerm{{Weight: 1, Preference: v1.NodeSelectorTerm{
				MatchExpressions: []v1.NodeSelectorRequirement{{Key: c14Key, Operator: v1.NodeSelectorOpIn, Values: []string{c14Value}}}}}}}}
		return false, true
	}
	sel := &v1.NodeSelector{}
	nT := verifChoice(c14P+"affinity.terms", terms+1)
	for t := 0; t < nT; t++ {
		ts := c14P + "t" + strconv.Itoa(t)
		var term v1.NodeSelectorTerm
		nE := verifChoice(ts+".exprs", exprs+1)
		for e := 0; e < nE; e++ {
			es := ts + ".e" + strconv.Itoa(e)
			key := []string{c14Key, "other"}[verifChoice(es+".key", 2)]
			op := c14Ops[verifChoice(es+".op", len(c14Ops))]
			var values []string
			lists := false
			switch verifChoice(es+".values", 4) {
			case 1:
				values = []string{c14Value}
				lists = true
			case 2:
				values = []string{"other"}
			case 3:
				values = []string{"other", c14Value}
				lists = true
			}
			term.MatchExpressions = append(term.MatchExpressions, v1.NodeSelectorRequirement{Key: key, Operator: op, Values: values})
			if key == c14Key && op == v1.NodeSelectorOpIn && lists {
				matches = true
			}
		}
		if t == 0 && nE <= 1 && verifChoice(ts+".fields", 2) == 1 {
			// match *fields* are not match expressions
			term.MatchFields = []v1.NodeSelectorRequirement{{Key: c14Key, Operator: v1.NodeSelectorOpIn, Values: []string{c14Value}}}
		}
		sel.NodeSelectorTerms = append(sel.NodeSelectorTerms, term)
	}
	pod.Spec.Affinity = &v1.Affinity{NodeAffinity: &v1.NodeAffinity{RequiredDuringSchedulingIgnoredDuringExecution: sel}}
	return matches, true
}

// VerifHarness_C14_pod: attribution of pods to a labelled group.
// shape: [max terms, max expressions per term]
func VerifHarness_C14_pod() {
	pod := &v1.Pod{}
	daemon := c14Owners(pod)
	selMatch, _ := c14Selector(pod)
	affMatch, _ := c14Affinity(pod, verifShape(0), verifShape(1))
	if verifChoice("static", 2) == 1 {
		pod.Annotations = map[string]string{"kubernetes.io/config.source": "file"}
	}
	got := NewPodAffinityFilterFunc(c14Key, c14Value)(pod)
	want := !daemon && (selMatch || affMatch)
	verifAssert("C14.pod-attribution", got == want)
	if got {
		verifReach("C14.pod-counted")
	} else {
		verifReach("C14.pod-not-counted")
	}
}

// VerifHarness_C14_default: attribution to the group named default.
func VerifHarness_C14_default() {
	pod := &v1.Pod{}
	daemon := c14Owners(pod)
	_, anySel := c14Selector(pod)
	if verifChoice("emptySelectorMap", 2) == 1 && !anySel {
		pod.Spec.NodeSelector = map[string]string{}
	}
	_, anyAff := c14Affinity(pod, 1, 1)
	static := false
	switch verifChoice("static", 4) {
	case 1:
		pod.Annotations = map[string]string{"kubernetes.io/config.source": "file"}
		static = true
	case 2:
		pod.Annotations = map[string]string{"kubernetes.io/config.source": "api"}
	case 3:
		pod.Annotations = map[string]string{"other": "file"}
	}
	switch verifChoice("podAffinity", 3) {
	case 1:
		if pod.Spec.Affinity == nil {
			pod.Spec.Affinity = &v1.Affinity{}
		}
		pod.Spec.Affinity.PodAffinity = &v1.PodAffinity{}
		anyAff = true
	case 2:
		if pod.Spec.Affinity == nil {
			pod.Spec.Affinity = &v1.Affinity{}
		}
		pod.Spec.Affinity.PodAntiAffinity = &v1.PodAntiAffinity{}
		anyAff = true
	}
	got := NewPodDefaultFilterFunc()(pod)
	want := !daemon && !static && !anySel && !anyAff
	verifAssert("C14.default-attribution", got == want)
	if got {
		verifReach("C14.default-counted")
	} else {
		verifReach("C14.default-not-counted")
	}
}

// VerifHarness_C14_node: a node belongs iff its labels map the key to exactly the value.
func VerifHarness_C14_node() {
	node := &v1.Node{}
	want := false
	switch verifChoice("labels", 7) {
	case 1:
		node.Labels = map[string]string{}
	case 2:
		node.Labels = map[string]string{"other": c14Value}
	case 3:
		node.Labels = map[string]string{c14Key: "other"}
	case 4:
		node.Labels = map[string]string{c14Key: c14Value}
		want = true
	case 5:
		node.Labels = map[string]string{"other": "x", c14Key: c14Value}
		want = true
	case 6:
		node.Labels = map[string]string{c14Key: c14Value + "x"}
	}
	got := NewNodeLabelFilterFunc(c14Key, c14Value)(node)
	verifAssert("C14.node-attribution", got == want)
	verifReach("C14.node")
}

type c14PodStore struct {
	v1lister.PodLister
	pods []*v1.Pod
}

func (s *c14PodStore) List(sel labels.Selector) ([]*v1.Pod, error) { return s.pods, nil }

type c14NodeStore struct {
	v1lister.NodeLister
	nodes []*v1.Node
}

func (s *c14NodeStore) List(sel labels.Selector) ([]*v1.Node, error) { return s.nodes, nil }

// VerifHarness_C14_lister: attribution through the group listers follows the
// pod as it is now: a pod re-created under the same namespace/name with another
// shape between two listings is attributed by its current shape.
func VerifHarness_C14_lister() {
	pods := &c14PodStore{}
	nodes := &c14NodeStore{}
	opts := NodeGroupOptions{Name: "g", LabelKey: c14Key, LabelValue: c14Value}
	group := NewNodeGroupLister(pods, nodes, opts)
	def := NewDefaultNodeGroupLister(pods, nodes, NodeGroupOptions{Name: DefaultNodeGroup, LabelKey: c14Key, LabelValue: "default"})
	for round := 0; round < 2; round++ {
		c14P = []string{"a.", "b."}[round]
		pod := &v1.Pod{}
		pod.Namespace, pod.Name = "ns", "worker-0"
		daemon := c14Owners(pod)
		selMatch, anySel := c14Selector(pod)
		affMatch, anyAff := c14Affinity(pod, verifShape(0), verifShape(0)) // expression shapes are C14_pod's subject
		pods.pods = []*v1.Pod{pod}
		got, err := group.Pods.List()
		verifAssert("C14.lister-no-error", err == nil)
		verifAssert("C14.lister-attribution", (len(got) == 1) == (!daemon && (selMatch || affMatch)))
		gotDef, _ := def.Pods.List()
		verifAssert("C14.default-lister-attribution", (len(gotDef) == 1) == (!daemon && !anySel && !anyAff))
	}
	c14P = ""
	verifReach("C14.lister")
}
