//go:build verif

package controller

import (
	"strconv"
	"time"

	"github.com/atlassian/escalator/pkg/cloudprovider"
	v1 "k8s.io/api/core/v1"
)

func init() {
	verifHarnesses["VerifHarness_C20_no_untainted"] = VerifHarness_C20_no_untainted
	verifHarnesses["VerifHarness_C20_untaint_odd"] = VerifHarness_C20_untaint_odd
	verifHarnesses["VerifHarness_C19_bigbatch"] = VerifHarness_C19_bigbatch
	verifHarnesses["VerifHarness_C20_forever"] = VerifHarness_C20_forever
	verifHarnesses["VerifHarness_C18_nolock"] = VerifHarness_C18_nolock
	verifHarnesses["VerifHarness_C19_scan"] = VerifHarness_C19_scan
	verifHarnesses["VerifHarness_C20"] = VerifHarness_C20
	verifHarnesses["VerifHarness_C20_postcooldown"] = VerifHarness_C20_postcooldown
}

// VerifHarness_C18_nolock: a failed fleet scale-up is reported to the caller,
// so no cool-down lock is taken: the very next scan tries again.
// shape: [fleet failure (0 never ready, 1 attach fails)]
func VerifHarness_C18_nolock() {
	failure := verifShape(0)
	w := newWorld(0)
	o := groupOpts(0)
	o.AWS.LaunchTemplateID = "lt-1"
	o.AWS.LaunchTemplateVersion = "1"
	o.AWS.FleetInstanceReadyTimeout = "1500ms"
	o.MinNodes, o.MaxNodes = 0, 10
	g := w.addGroup(o, 0, 10, 0)
	w.symNodes("", g, 1, []int{tcNone}, false, []int{0}, false)
	w.symPods("", g, 1, 1, false, 2*w.cpuPerNode, false)
	if failure == 0 {
		w.EC2.ReadyAfter = 0
	} else {
		w.AS.AttachFailAt = 1
	}
	w.build()
	mark1 := len(w.J.Calls)
	_ = w.ctrl.RunOnce()
	j1 := w.summarize(g, mark1)
	verifAssert("C18.harness-first-scan-requested-fleet", j1.fleet == 1)
	// the cloud side recovers
	w.EC2.ReadyAfter = 1
	w.AS.AttachFailAt = 0
	mark2 := len(w.J.Calls)
	_ = w.ctrl.RunOnce()
	j2 := w.summarize(g, mark2)
	verifAssert("C18.no-lock-after-failed-fleet", j2.fleet == 1)
	verifReach("C18.retried")
}

// VerifHarness_C19_scan: Node objects are deleted only after the cloud accepted
// termination of the entire batch; a node that is not in the group stops the
// controller with the not-in-group error.
// shape: [tainted nodes, failure budget]
func VerifHarness_C19_scan() {
	N, F := verifShape(0), verifShape(1)
	w := newWorld(F)
	o := groupOpts(0)
	gm := graceMenus[1]
	o.SoftDeleteGracePeriod, o.HardDeleteGracePeriod = gm.soft, gm.hard
	o.MinNodes, o.MaxNodes = 0, 2*N+3
	// the removal rates must not influence how the reaper batches its work
	rate := verifChoice("fast", 3)
	o.FastNodeRemovalRate, o.SlowNodeRemovalRate = rate, 0
	g := w.addGroup(o, 0, int64(2*N)+3, int64(N)) // desired leaves room to remove the whole batch
	// one untainted node provides capacity; N expired tainted / force-tainted nodes, member or foreign
	w.addNode(g, tcNone, false, 0, 0, 9000, true)
	foreign := make([]bool, N+1)
	for i := 1; i <= N; i++ {
		is := "n" + strconv.Itoa(i)
		class := []int{tcEsc, tcForce}[verifChoice(is+".class", 2)]
		member := verifChoice(is+".member", 2) == 1
		foreign[i] = !member
		w.addNode(g, class, false, 0, 1000, int64(5000+100*i), member)
	}
	w.build()
	verifFreezeClock(w.base+1, 0)
	mark := len(w.J.Calls)
	err := w.ctrl.RunOnce()
	verifUnfreezeClock()
	_, notInGroup := err.(*cloudprovider.NodeNotInNodeGroup)

	batchOf := func(n *vNode) int { return n.class } // force batch and tainted batch are separate
	for k := mark; k < len(w.J.Calls); k++ {
		e := w.J.Calls[k]
		if e.Kind != "NodeDelete" {
			continue
		}
		verifReach("C19.node-deleted")
		n := w.nodeByName(e.Node)
		verifAssert("C19.delete-targets-listed-node", n != nil)
		if n == nil {
			continue
		}
		okTerm := false
		for q := mark; q < k; q++ {
			t := w.J.Calls[q]
			if t.Kind == "Terminate" {
				tn := w.nodeByInstance(t.Instance)
				if tn == n && t.OK {
					okTerm = true
				}
				if tn != nil && batchOf(tn) == batchOf(n) {
					verifAssert("C19.k8s-delete-only-after-whole-batch-accepted", t.OK)
				}
			}
		}
		verifAssert("C19.k8s-delete-after-its-cloud-termination", okTerm)
		for i, m := range w.nodes {
			if i > 0 && foreign[i] && batchOf(m) == batchOf(n) {
				verifAssert("C19.no-k8s-delete-in-a-batch-with-a-foreign-node", false)
			}
		}
	}
	anyForeignTainted := false
	for i, m := range w.nodes {
		if i > 0 && foreign[i] && m.class == tcEsc {
			anyForeignTainted = true
		}
	}
	if F == 0 && anyForeignTainted {
		verifAssert("C19.not-in-group-stops-the-controller", notInGroup)
		verifReach("C19.not-in-group")
	}
	if F == 0 && !anyForeignTainted {
		allMember := true
		for i := range w.nodes {
			if i > 0 && foreign[i] {
				allMember = false
			}
		}
		if allMember {
			verifAssert("C19.clean-scan-returns-nil", err == nil)
		}
	}
}

var c20ProviderIDs = []string{"aws:///az/i-0", "", "aws:///az", "i-0", "aws://az/i-0/extra/parts/x"}
var c20TaintValues = []string{"", "garbage", "99999999999999999999999", "-5", "1.5e9", " 1600000000"}

// c20World builds a cluster of oddly shaped objects.
func c20World(N, P, F int) (*vWorld, int) {
	w := newWorld(F)
	o := groupOpts(0)
	gm := graceMenus[1]
	o.SoftDeleteGracePeriod, o.HardDeleteGracePeriod = gm.soft, gm.hard
	o.MinNodes, o.MaxNodes = 0, N+3
	if verifChoice("starve", 2) == 1 {
		o.ScaleOnStarve = true
	}
	switch c20Dry {
	case 1:
		w.dry = true // controller-wide --drymode only
	case 2:
		o.DryMode = true // the group's own option only
	}
	g := w.addGroup(o, 0, int64(N)+3, 0)
	for i := 0; i < N; i++ {
		is := "n" + strconv.Itoa(i)
		class := []int{tcNone, tcEsc, tcForce}[verifChoice(is+".class", 3)]
		n := w.addNode(g, class, false, 0, verifInt(is+".taintAge", -60, 2000), int64(5000+100*i), true)
		switch verifChoice(is+".odd", 5) {
		case 1:
			n.obj.Status.Allocatable = nil
		case 2:
			n.obj.Status.Allocatable = v1.ResourceList{}
		case 3:
			n.obj.Spec.ProviderID = c20ProviderIDs[verifChoice(is+".providerID", len(c20ProviderIDs))]
		case 4:
			if class == tcEsc {
				n.obj.Spec.Taints[0].Value = c20TaintValues[verifChoice(is+".taintValue", len(c20TaintValues))]
			}
		}
	}
	for j := 0; j < P; j++ {
		js := "p" + strconv.Itoa(j)
		p := w.addPod(g, verifChoice(js+".node", N+2)-2, false, verifInt(js+".cpu", 0, 3*w.cpuPerNode), 1<<20, false)
		switch verifChoice(js+".odd", 8) {
		case 5:
			p.obj.Spec.NodeSelector = nil
			p.obj.Spec.Affinity = &v1.Affinity{}
		case 6:
			p.obj.Spec.NodeSelector = nil
			p.obj.Spec.Affinity = &v1.Affinity{NodeAffinity: &v1.NodeAffinity{}}
		case 7:
			p.obj.Spec.NodeSelector = map[string]string{"other": "x"}
			p.obj.Spec.Affinity = &v1.Affinity{NodeAffinity: &v1.NodeAffinity{
				PreferredDuringSchedulingIgnoredDuringExecution: []v1.PreferredSchedulingTerm{{Weight: 1}}}}
		case 1:
			p.obj.Spec.Containers[0].Resources.Requests = nil
		case 2:
			p.obj.Spec.Containers = nil
		case 3:
			p.obj.Spec.NodeSelector = nil
			p.obj.Spec.Affinity = &v1.Affinity{NodeAffinity: &v1.NodeAffinity{RequiredDuringSchedulingIgnoredDuringExecution: &v1.NodeSelector{
				NodeSelectorTerms: []v1.NodeSelectorTerm{{}, {MatchExpressions: []v1.NodeSelectorRequirement{{Key: "group", Operator: v1.NodeSelectorOpIn, Values: []string{"g0"}}}}}}}}
		case 4:
			p.obj.Status.Phase = v1.PodPending
			p.obj.Status.Conditions = nil
		}
	}
	w.build()
	return w, g
}

var c20Dry int

// VerifHarness_C20: a scan over odd objects with failing APIs never panics
// (checked by the engine: a path ending in a Go panic is a violation), stops
// only for the documented reasons, and the next fault-free scan proceeds.
// shape: [nodes, pods, failure budget, dry mode (0 off, 1 controller-wide, 2 the group's own option)]
func VerifHarness_C20() {
	N, P, F := verifShape(0), verifShape(1), verifShape(2)
	c20Dry = verifShape(3)
	w, _ := c20World(N, P, F)
	verifFreezeClock(w.base+1, 0)
	err := w.ctrl.RunOnce()
	if w.J.Failed > 0 {
		verifReach("C20.fault-injected")
	}
	if err != nil {
		_, notInGroup := err.(*cloudprovider.NodeNotInNodeGroup)
		// the only documented stop is not-in-group. Known finding K-C20-rebuild: when the
		// refresh fails and rebuilding the provider fails too, RunOnce returns that error,
		// which stops the controller (cmd/main.go exits on any RunForever error).
		rebuildFailed := w.builder.Failed > 0
		verifAssert("C20.stops-only-when-documented", notInGroup || verifKnown("K-C20-rebuild", rebuildFailed))
		verifReach("C20.stopped")
		verifUnfreezeClock()
		return // the controller has stopped; there is no next scan
	}
	verifReach("C20.completed")
	// the following scan, without faults
	w.J.FailBudget = 0
	err2 := w.ctrl.RunOnce()
	verifUnfreezeClock()
	if err2 != nil {
		_, notInGroup := err2.(*cloudprovider.NodeNotInNodeGroup)
		verifAssert("C20.next-scan-proceeds", notInGroup)
	}
	verifReach("C20.second-scan-done")
}

// VerifHarness_C20_postcooldown: the scan right after a cool-down looks new
// nodes up in the cloud (registration lag); odd provider IDs and lookup
// failures must not panic.
// shape: [nodes, failure budget]
func VerifHarness_C20_postcooldown() {
	N, F := verifShape(0), verifShape(1)
	w := newWorld(0)
	o := groupOpts(0)
	o.ScaleUpCoolDownPeriod = "1s"
	o.MinNodes, o.MaxNodes = 0, N+6
	g := w.addGroup(o, 0, int64(N)+6, 0)
	w.symNodes("", g, N, []int{tcNone}, false, []int{0}, false)
	w.symPods("", g, 1, 1, false, 2*int64(N)*w.cpuPerNode, false)
	w.build()
	_ = w.ctrl.RunOnce() // accepted scale-up: lock armed, delta > 0
	j1 := w.summarize(g, 0)
	verifAssert("C20.harness-scale-up-accepted", j1.increases == 1)
	verifSleepSeconds(3)
	// the new nodes register, with whatever provider id the kubelet reported
	for k := 0; k < 2; k++ {
		ks := strconv.Itoa(k)
		n := w.addNode(g, tcNone, false, 0, 0, -2, true) // created 2 s after T0
		n.obj.Spec.ProviderID = c20ProviderIDs[verifChoice("new"+ks+".providerID", len(c20ProviderIDs))]
	}
	w.EC2.DescribeShape = verifChoice("describeShape", 3)
	w.J.FailBudget = F
	err := w.ctrl.RunOnce()
	// (known finding K-C20-rebuild: with two failures the refresh and the rebuild may both fail)
	verifAssert("C20.post-cooldown-scan-completes", err == nil || verifKnown("K-C20-rebuild", w.builder.Failed > 0))
	verifReach("C20.registration-lag-lookup")
}

// VerifHarness_C20_forever: the main loop. RunForever(true) scans immediately and then on
// every tick until the stop channel closes (the harness closes it at the start of the K-th
// scan). One API call per budget may fail in any scan. The loop must outlive every non-fatal
// problem, scan K times, and return at once when a scan reports the not-in-group condition.
// shape: [nodes, scans K, failure budget]
func VerifHarness_C20_forever() {
	N, K, F := verifShape(0), verifShape(1), verifShape(2)
	w := newWorld(F)
	w.J.TypedErrors = true // a failing cloud call may be a plain error, AWS throttling or an AWS ValidationError
	o := groupOpts(0)
	gm := graceMenus[1]
	o.SoftDeleteGracePeriod, o.HardDeleteGracePeriod = gm.soft, gm.hard
	o.MinNodes, o.MaxNodes = 0, N+4
	g := w.addGroup(o, 0, int64(N)+4, int64(N)+1) // desired leaves room to remove every node but one
	w.addNode(g, tcNone, false, 0, 0, 9000, true)
	anyForeign := false
	foreignDueAt := 0 // the first scan in which a removable node outside the cloud group is met (0: never)
	for i := 1; i <= N; i++ {
		is := "n" + strconv.Itoa(i)
		class := []int{tcNone, tcEsc, tcForce}[verifChoice(is+".class", 3)]
		member := verifChoice(is+".member", 2) == 1
		// tainted 1000 s ago (past the hard period in scan 1) or just now (due from scan 2 on,
		// before which the clock jumps)
		late := class == tcEsc && verifChoice(is+".late", 2) == 1
		age := int64(1000)
		if late {
			age = 0
		}
		w.addNode(g, class, false, 0, age, int64(5000+100*i), member)
		if !member {
			anyForeign = true
		}
		if !member && class == tcEsc {
			at := 1
			if late {
				at = 2
			}
			if foreignDueAt == 0 || at < foreignDueAt {
				foreignDueAt = at
			}
		}
	}
	// no pods: every scan is a scale-down scan, so the reaper runs and asks the cloud to remove what is due
	w.build()
	stop := make(chan struct{})
	w.ctrl.stopChan = stop
	w.ctrl.Opts.ScanInterval = time.Second
	w.onPodList = func() {
		if w.podLists == 2 {
			verifFreezeClock(w.base+2001, 0)
		}
		if w.podLists == K {
			close(stop)
		}
	}
	verifFreezeClock(w.base+1, 0)
	err := w.ctrl.RunForever(true)
	verifUnfreezeClock()
	verifAssert("C20.loop-always-returns-an-error", err != nil)
	if err == nil {
		return
	}
	_, notInGroup := err.(*cloudprovider.NodeNotInNodeGroup)
	stopped := err.Error() == "main loop stopped"
	rebuildFailed := w.builder.Failed > 0
	verifAssert("C20.loop-ends-only-when-stopped-or-documented", notInGroup || stopped || verifKnown("K-C20-rebuild", rebuildFailed))
	if stopped {
		verifAssert("C20.loop-scans-until-stopped", w.podLists >= K)
		verifReach("C20.loop-stopped-after-K-scans")
		if w.J.Failed > 0 {
			verifReach("C20.loop-survived-a-failed-call")
		}
	}
	if F == 0 && foreignDueAt > 0 && foreignDueAt <= K {
		// C19: a removable node that is not a member of the cloud group makes escalator exit
		verifAssert("C20.not-in-group-ends-the-loop", notInGroup)
		verifAssert("C20.not-in-group-ends-the-loop-at-once", w.podLists == foreignDueAt)
		verifReach("C20.loop-ended-by-not-in-group")
		if foreignDueAt == 2 {
			verifReach("C20.loop-ended-by-not-in-group-on-a-tick")
		}
	}
	if F == 0 && !anyForeign {
		// (an untainted node outside the cloud group may be tainted by scan 1 and fall due in scan 2)
		verifAssert("C20.loop-runs-to-the-stop", stopped)
	}
}

// VerifHarness_C19_bigbatch: one reaping scan over a large batch (N expired tainted nodes).
// The batch is one request to the cloud: it is refused as a whole if it would breach the group's
// minimum, and no Node object is deleted before the cloud accepted the termination of every
// instance of the batch -- however large the batch is.
// mode 0: one node (symbolic position, or none) is not a member of the cloud group
// mode 1: the k-th termination (symbolic) is rejected by the cloud
// mode 2: the cloud group's minimum allows fewer removals than the batch holds (symbolic slack)
// shape: [nodes, mode]
func VerifHarness_C19_bigbatch() {
	N, mode := verifShape(0), verifShape(1)
	w := newWorld(0)
	o := groupOpts(0)
	gm := graceMenus[1]
	o.SoftDeleteGracePeriod, o.HardDeleteGracePeriod = gm.soft, gm.hard
	o.MinNodes, o.MaxNodes = 0, 2*N+3
	asgMin := int64(0)
	slack := int64(N)
	if mode == 2 {
		slack = verifInt("removable", 0, int64(N)) // desired - min
		asgMin = int64(N) + 1 - slack
	}
	g := w.addGroup(o, asgMin, int64(2*N)+3, 0)
	w.addNode(g, tcNone, false, 0, 0, 9000, true)
	foreignAt := int64(-1)
	if mode == 0 {
		foreignAt = verifInt("foreignAt", -1, int64(N)-1)
	}
	for i := 0; i < N; i++ {
		w.addNode(g, tcEsc, false, 0, 1000, int64(5000+i), int64(i) != verifConcrete(foreignAt))
	}
	w.build()
	if mode == 1 {
		w.AS.TermFailAt(int(verifInt("terminateFailAt", 1, int64(N))))
	}
	verifFreezeClock(w.base+1, 0)
	mark := len(w.J.Calls)
	err := w.ctrl.RunOnce()
	verifUnfreezeClock()
	terms, termsOK, deletes := 0, 0, 0
	for _, e := range w.J.Calls[mark:] {
		switch e.Kind {
		case "Terminate":
			terms++
			if e.OK {
				termsOK++
			}
			verifAssert("C19.no-termination-after-a-node-object-was-deleted", deletes == 0)
		case "NodeDelete":
			deletes++
			verifAssert("C19.k8s-delete-only-after-whole-batch-accepted", termsOK == N)
		}
	}
	desired := int64(N) + 1
	allowed := desired-int64(N) >= asgMin
	_, notInGroup := err.(*cloudprovider.NodeNotInNodeGroup)
	switch {
	case !allowed:
		verifAssert("C19.refuses-whole-request", terms == 0 && deletes == 0)
		verifReach("C19.big-batch-refused")
	case foreignAt >= 0:
		verifAssert("C19.not-in-group-stops-the-controller", notInGroup)
		verifAssert("C19.no-k8s-delete-in-a-batch-with-a-foreign-node", deletes == 0)
		verifReach("C19.big-batch-foreign")
	case mode == 1:
		verifAssert("C19.no-k8s-delete-after-a-rejected-termination", deletes == 0)
		verifReach("C19.big-batch-failed-midway")
	default:
		verifAssert("C19.complete-batch", terms == N && deletes == N && err == nil)
		verifReach("C19.big-batch-complete")
	}
}

// VerifHarness_C20_untaint_odd: a scale-up that reuses a tainted node whose taint list is odd: the
// escalator taint twice (different effects) in any arrangement with a foreign taint. The scan must
// not panic, and what it does must still add up (C07: exactly the remainder is bought).
// shape: [failure budget]
func VerifHarness_C20_untaint_odd() {
	F := verifShape(0)
	w := newWorld(F)
	o := groupOpts(0)
	o.MinNodes, o.MaxNodes = 0, 6
	g := w.addGroup(o, 0, 6, 0)
	w.addNode(g, tcNone, false, 0, 0, 9000, true)
	n := w.addNode(g, tcEscTwice, false, 0, 10, 5000, true)
	e1, x, e2 := n.obj.Spec.Taints[0], n.obj.Spec.Taints[1], n.obj.Spec.Taints[2]
	n.obj.Spec.Taints = [][]v1.Taint{{e1, x, e2}, {e1, e2}, {x, e1, e2}, {e1, e2, x}, {e2, x, e1}}[verifChoice("taintOrder", 5)]
	w.symPods("", g, 1, 1, false, -3*w.cpuPerNode, false)
	w.build()
	mark := len(w.J.Calls)
	err := w.ctrl.RunOnce()
	verifAssert("C20.odd-taints-scan-completes", err == nil)
	for _, e := range w.J.Calls[mark:] {
		if (e.Kind == "NodeUntaint" || e.Kind == "NodeUpdate") && e.Node == n.name {
			verifReach("C20.untaint-of-doubly-tainted-node") // (removing one of the two leaves the key on the node)
		}
	}
}

// VerifHarness_C20_no_untainted: the optional triggers (max_node_age, scale_on_starve) on a group
// that has no untainted node at all: no nodes, or only cordoned / force-tainted ones, with
// min_nodes 0 and a pending pod or none. The scan must not panic.
// shape: [nodes]
func VerifHarness_C20_no_untainted() {
	N := verifShape(0)
	w := newWorld(0)
	o := groupOpts(0)
	o.MinNodes, o.MaxNodes = 0, 5
	switch verifChoice("trigger", 3) {
	case 1:
		o.MaxNodeAge = "1h"
	case 2:
		o.ScaleOnStarve = true
	}
	g := w.addGroup(o, 0, 5, 0)
	for i := 0; i < N; i++ {
		is := "n" + strconv.Itoa(i)
		switch verifChoice(is+".kind", 3) {
		case 0:
			w.addNode(g, tcNone, true, 0, 0, 9000, true) // cordoned
		case 1:
			w.addNode(g, tcForce, false, 0, 0, 9000, true)
		case 2:
			w.addNode(g, tcEsc, false, 0, 10, 9000, true)
		}
	}
	if verifChoice("pendingPod", 2) == 1 {
		w.addPod(g, -1, false, verifInt("p0.cpu", 0, 2*w.cpuPerNode), 1<<20, true)
	}
	w.build()
	err := w.ctrl.RunOnce()
	verifAssert("C20.no-untainted-scan-completes", err == nil)
	verifReach("C20.scan-without-untainted-nodes")
}
