//go:build verif

package controller

import v1 "k8s.io/api/core/v1"

func init() {
	verifHarnesses["VerifHarness_C07"] = VerifHarness_C07
}

// VerifHarness_C07: when N more nodes are needed, tainted nodes are untainted
// first (newest first) and exactly the remainder is requested on top of the
// cloud group's desired size at call time.
// shape: [nodes, failure budget, class menu, mode (0 utilisation scale-up, 1 below-minimum recovery), prior scan,
//
//	effect of the taints on the nodes free (0/1), up to K newest nodes unreachable at the API server (then nodes are fixed: N-1 tainted, newest first, and one untainted)]
func VerifHarness_C07() {
	N, F, menu, mode := verifShape(0), verifShape(1), verifShape(2), verifShape(3)
	w := newWorld(F)
	o := groupOpts(0)
	maxEff := int64(N) + 4
	asgMax := int64(N) + 4
	o.MinNodes, o.MaxNodes = 0, int(maxEff)
	if mode == 1 {
		o.MinNodes = int(verifInt("min", 1, int64(N)))
	}
	if verifShape(8) == 1 {
		o.MaxNodeAge = "1h" // tainted nodes are reused whatever their age (creation ages are symbolic up to ~27 h)
	}
	extra := verifInt("asg.extraDesired", 0, 1)
	g := w.addGroup(o, 0, asgMax, extra)
	classes := [][]int{{tcNone, tcEsc}, {tcNone, tcEsc, tcForce}, {tcEsc, tcForce}, {tcEsc}}[menu]
	if verifShape(5) == 1 {
		// the taints already on the nodes carry whatever effect was configured when they were applied
		w.escEffect = []v1.TaintEffect{v1.TaintEffectNoSchedule, v1.TaintEffectNoExecute, v1.TaintEffectPreferNoSchedule}[verifChoice("effectOnNodes", 3)]
	}
	K := verifShape(6) // the K newest nodes cannot be reached at the API server
	if K > 0 {
		// creation ages fixed: n0 newest
		for i := 0; i < N; i++ {
			cl := tcEsc
			if i == N-1 {
				cl = tcNone // one untainted node provides the capacity figure
			}
			w.addNode(g, cl, false, 0, 10, int64(100+100*i), true)
		}
		w.unreachable = map[string]bool{}
		kk := int(verifInt("unreachableNewest", 0, int64(K)))
		for i := 0; i < kk; i++ {
			w.unreachable[w.nodes[i].name] = true
		}
	} else {
		w.symNodes("", g, N, classes, false, []int{0}, true)
	}
	if mode == 0 {
		w.symPods("", g, 1, 1, false, -6*w.cpuPerNode, false)
	}
	w.build()
	if verifShape(4) == 1 {
		w.priorScan(g)
	}
	if verifShape(7) == 1 {
		// the API server goes away in the middle of the scan: after a symbolic number of node calls all of them time out
		w.nodeAPIDownAfter = int(verifInt("apiDownAfter", 1, 6))
	}
	s := w.snap(g)
	mark := len(w.J.Calls)
	_ = w.ctrl.RunOnce()
	j := w.summarize(g, mark)
	st := w.ctrl.nodeGroups[o.Name]

	var need int64
	var scaling bool
	if mode == 0 {
		need = int64(st.scaleDelta)
		scaling = verifAnd(s.untainted > 0, need > 0)
	} else {
		need = int64(o.MinNodes) - s.untainted
		scaling = verifAnd(need > 0, int64(o.MinNodes) <= s.total)
	}

	// which nodes were (attempted to be) untainted
	attempted := make([]bool, len(w.nodes))
	untainted := make([]bool, len(w.nodes))
	for k := mark; k < len(w.J.Calls); k++ {
		e := w.J.Calls[k]
		// a write counts as attempted when the update was sent, or when the
		// fetch that precedes it failed
		if e.Kind == "NodeUntaint" || (e.Kind == "NodeGet" && !e.OK) {
			for i, n := range w.nodes {
				if n.name == e.Node {
					attempted[i] = true
					if e.OK && e.Kind == "NodeUntaint" {
						untainted[i] = true
					}
				}
			}
		}
	}
	isTainted := func(n *vNode) bool { return n.class == tcEsc || n.class == tcEscGarbage || n.class == tcEscEmpty }
	for i, u := range w.nodes {
		if !untainted[i] {
			continue
		}
		verifReach("C07.untainted-one")
		verifAssert("C07.untaint-only-tainted", isTainted(u))
		for k, t := range w.nodes {
			if k == i || !isTainted(t) || attempted[k] {
				continue
			}
			// t stayed tainted with no write attempted: it must not be strictly newer than u
			verifAssert("C07.newest-first", !(t.createAge < u.createAge))
		}
	}
	if F == 0 && K == 0 && verifShape(7) == 0 {
		verifAssert("C07.untaint-count", verifImplies(scaling, int64(j.untaints) == imin(need, s.tainted)))
	}
	verifAssert("C07.untaint-at-most-needed", verifImplies(scaling, int64(j.untaints) <= need))
	rest := need - int64(j.untaints)
	bound := imin(maxEff, asgMax)
	for k := mark; k < len(w.J.Calls); k++ {
		e := w.J.Calls[k]
		if e.Kind != "SetDesiredCapacity" {
			continue
		}
		verifReach("C07.cloud-request")
		verifAssert("C07.cloud-gets-exactly-the-remainder", verifImplies(scaling, e.N == imin(e.Prev+rest, bound)))
		for i, t := range w.nodes {
			if isTainted(t) && !attempted[i] {
				verifAssert("C07.no-purchase-while-reusable-node-stays-tainted", false)
			}
		}
		terms := 0
		for q := mark; q < k; q++ {
			if w.J.Calls[q].Kind == "Terminate" && w.J.Calls[q].OK {
				terms++
			}
		}
		if terms > 0 {
			verifReach("C07.request-after-same-scan-termination")
		}
	}
	verifAssert("C07.no-cloud-request-when-untaint-suffices", verifImplies(verifAnd(scaling, rest <= 0), j.increaseAttempts == 0))
}
