//go:build verif

package controller

import (
	"time"

	"github.com/atlassian/escalator/pkg/cloudprovider/aws"
	v1 "k8s.io/api/core/v1"
)

func init() {
	verifHarnesses["VerifHarness_C16"] = VerifHarness_C16
}

var c16Durations = []string{"", "0", "0s", "-5m", "abc", "5", "1s", "1m", "10m", "1h30m", "2h", "30m"} // ("2h" sorts before "30m" as text)

func c16Dur(s string) (time.Duration, bool) {
	d, err := time.ParseDuration(s)
	return d, err == nil
}

// c16Free frees option group k of ng and returns the statement's invariant
// for that group.
func c16Free(ng *NodeGroupOptions, k int) bool {
	switch k {
	case 0: // names
		pick := func(n string) string { return []string{"", "x"}[verifChoice(n, 2)] }
		ng.Name = []string{"", "x", DefaultNodeGroup}[verifChoice("name", 3)] // the default group gets no exemption
		ng.LabelKey, ng.LabelValue, ng.CloudProviderGroupName = pick("label_key"), pick("label_value"), pick("cloud_group")
		return ng.Name != "" && ng.LabelKey != "" && ng.LabelValue != "" && ng.CloudProviderGroupName != ""
	case 1: // thresholds
		lo, up, su := verifInt("lower", -5, 200), verifInt("upper", -5, 200), verifInt("scale_up", -5, 200)
		ng.TaintLowerCapacityThresholdPercent, ng.TaintUpperCapacityThresholdPercent, ng.ScaleUpThresholdPercent = int(lo), int(up), int(su)
		return verifAnd(0 < lo, verifAnd(lo < up, up < su))
	case 2: // min / max
		mn, mx := verifInt("min_nodes", -3, 10), verifInt("max_nodes", -3, 10)
		ng.MinNodes, ng.MaxNodes = int(mn), int(mx)
		return verifOr(verifAnd(0 <= mn, mn < mx), verifAnd(mn == 0, mx == 0))
	case 3: // rates
		sl, fa := verifInt("slow", -5, 10), verifInt("fast", -5, 10)
		ng.SlowNodeRemovalRate, ng.FastNodeRemovalRate = int(sl), int(fa)
		return verifAnd(0 <= sl, sl <= fa)
	case 4: // grace periods
		ng.SoftDeleteGracePeriod = c16Durations[verifChoice("soft", len(c16Durations))]
		ng.HardDeleteGracePeriod = c16Durations[verifChoice("hard", len(c16Durations))]
		s, okS := c16Dur(ng.SoftDeleteGracePeriod)
		h, okH := c16Dur(ng.HardDeleteGracePeriod)
		return okS && okH && 0 < s && s < h
	case 5: // cool-down
		ng.ScaleUpCoolDownPeriod = c16Durations[verifChoice("cooldown", len(c16Durations))]
		d, ok := c16Dur(ng.ScaleUpCoolDownPeriod)
		return ok && d > 0
	case 6: // taint effect
		effects := []v1.TaintEffect{"", v1.TaintEffectNoSchedule, v1.TaintEffectNoExecute, v1.TaintEffectPreferNoSchedule, "Bogus", "noschedule"}
		ng.TaintEffect = effects[verifChoice("effect", len(effects))]
		return ng.TaintEffect == "" || ng.TaintEffect == v1.TaintEffectNoSchedule || ng.TaintEffect == v1.TaintEffectNoExecute || ng.TaintEffect == v1.TaintEffectPreferNoSchedule
	case 7: // lifecycle
		ls := []string{"", aws.LifecycleOnDemand, aws.LifecycleSpot, "reserved", "Spot", "capacity-block", "on-demand "}
		ng.AWS.Lifecycle = ls[verifChoice("lifecycle", len(ls))]
		return ng.AWS.Lifecycle == "" || ng.AWS.Lifecycle == aws.LifecycleOnDemand || ng.AWS.Lifecycle == aws.LifecycleSpot
	case 8: // max node age: empty or a parsable duration (negative = disabled)
		ages := []string{"", "0", "12h", "-1h", "abc", "7"}
		ng.MaxNodeAge = ages[verifChoice("max_node_age", len(ages))]
		_, ok := c16Dur(ng.MaxNodeAge)
		return ng.MaxNodeAge == "" || ok
	}
	return true
}

// VerifHarness_C16: every configuration accepted by ValidateNodeGroup
// satisfies the invariants. The option groups named by the shape are free,
// the others hold valid values.
// shape: [group a, group b (or -1)]
func VerifHarness_C16() {
	ng := groupOpts(0)
	ng.MinNodes, ng.MaxNodes = 1, 5
	a, b := verifShape(0), verifShape(1)
	invA := c16Free(&ng, a)
	invB := true
	if b >= 0 && b != a {
		invB = c16Free(&ng, b)
	}
	problems := ValidateNodeGroup(ng)
	if len(problems) == 0 {
		verifReach("C16.accepted")
		verifAssert("C16.accepted-implies-invariants", verifAnd(invA, invB))
	} else {
		verifReach("C16.rejected")
	}
}
