//go:build verif

package controller

import "strconv"

func init() {
	verifHarnesses["VerifHarness_C03"] = VerifHarness_C03
}

// VerifHarness_C03: tainting keeps >= min_nodes untainted; below the minimum
// nothing is tainted and capacity is restored (untaint first, then cloud).
// shape: [nodes, pods, failure budget, auto-discovery(0/1), class menu, prior scan (0/1), built by NewController with the cloud limits changing after start-up (0/1),
//
//	every other describe call of the scan under test fails (0/1)]
func VerifHarness_C03() {
	N, P, F, auto, menu := verifShape(0), verifShape(1), verifShape(2), verifShape(3), verifShape(4)
	w := newWorld(F)
	o := groupOpts(0)
	asgMin := verifInt("asg.min", 0, int64(N)+1)
	asgMax := verifInt("asg.max", 1, int64(N)+3)
	extra := verifInt("asg.extraDesired", 0, 2)
	if auto == 1 {
		verifAssume(asgMin <= asgMax) // a cloud group pinned to one size is legal
	} else {
		verifAssume(asgMin < asgMax)
	}
	var minEff, maxEff int64
	if auto == 1 {
		o.MinNodes, o.MaxNodes = 0, 0
		minEff, maxEff = asgMin, asgMax
	} else {
		minEff = verifInt("min", 0, int64(N)+1)
		maxEff = verifInt("max", 1, int64(N)+3)
		o.MinNodes, o.MaxNodes = int(minEff), int(maxEff)
		verifAssume(minEff < maxEff)
	}
	o.SlowNodeRemovalRate = int(verifInt("slow", 0, int64(N)+2))
	o.FastNodeRemovalRate = int(verifInt("fast", 0, int64(N)+2))
	verifAssume(o.SlowNodeRemovalRate <= o.FastNodeRemovalRate)
	prior := verifShape(5) == 1
	classes := [][]int{{tcNone, tcEsc}, {tcNone, tcEsc, tcForce, tcEscGarbage}}[menu]
	prod := verifShape(6) == 1 // controller assembled by the real NewController (auto-discovery happens there first); the cloud group's limits change afterwards
	var g int
	if prod {
		g = w.addGroup(o, 0, int64(N)+3, extra)
		w.symNodes("", g, N, classes, true, []int{0}, false)
		w.symPods("", g, P, 2, false, -3*w.cpuPerNode, false)
	} else if !prior {
		g = w.addGroup(o, asgMin, asgMax, extra)
		w.symNodes("", g, N, classes, true, []int{0}, false)
		w.symPods("", g, P, 2, false, -3*w.cpuPerNode, false)
	} else {
		// an earlier, uneventful scan of the same controller: all nodes schedulable and
		// untainted, utilisation in the idle band, generous cloud limits. Then the cluster
		// and the cloud group change to the snapshot under test.
		g = w.addGroup(o, 0, int64(N)+3, extra)
		w.symNodes("", g, N, []int{tcNone}, false, []int{0}, false)
		w.symPods("", g, P, 2, false, int64(N)*w.cpuPerNode*60/100/int64(P), false)
	}
	asg := w.AS.Group(o.CloudProviderGroupName)
	// AWS keeps min <= desired <= max
	verifAssume(verifAnd(asgMin <= asg.Desired, asg.Desired <= asgMax))
	desired := asg.Desired
	if prod {
		w.buildProduction()
		asg.Min, asg.Max = asgMin, asgMax
	} else {
		w.build()
	}
	if prior {
		_ = w.ctrl.RunOnce()
		asg.Min, asg.Max = asgMin, asgMax
		for i, n := range w.nodes {
			is := "n" + strconv.Itoa(i)
			class := classes[verifChoice(is+".class", len(classes))]
			var age int64
			if class == tcEsc {
				age = verifInt(is+".taintAge", -60, 2000)
			}
			w.retaint(n, class, age)
			n.cordoned = verifBool(is + ".cordoned")
			n.obj.Spec.Unschedulable = n.cordoned
		}
		for j, p := range w.pods {
			w.setPodCPU(p, verifInt("p"+strconv.Itoa(j)+".cpu", 0, 3*w.cpuPerNode))
		}
	}
	if verifShape(7) == 1 {
		// flaky cloud: the scan's refresh fails, each rebuild works, each rebuilt provider's refresh
		// fails again -- the scan still has to run on what the last rebuild read (the limits as they are now)
		w.AS.FailEveryOtherDescribe()
	}
	s := w.snap(g)
	mark := len(w.J.Calls)
	_ = w.ctrl.RunOnce()
	w.AS.DescribeFailOdd = false
	j := w.summarize(g, mark)
	if verifShape(7) == 1 && w.builder.Builds >= 2 {
		verifReach("C03.scan-on-a-twice-rebuilt-provider")
	}

	// "applies its taint": writes that were accepted (a rejected write leaves the node untainted
	// and escalator moves on to the next candidate)
	verifAssert("C03.min-preserved", verifOr(j.taintAdds == 0, s.untainted-int64(j.taintAdds) >= minEff))
	below := verifAnd(s.untainted < minEff, verifAnd(minEff <= s.total, s.total <= maxEff))
	verifAssert("C03.no-taint-below-min", verifImplies(below, j.taintAttempts == 0))
	verifReachIf("C03.below-min", below)
	verifReachIf("C03.tainted-some", j.taintAdds > 0)
	if F == 0 {
		need := minEff - s.untainted
		wantUntaint := imin(need, s.tainted)
		verifAssert("C03.restores-by-untainting-first", verifImplies(below, int64(j.untaints) == wantUntaint))
		rest := need - wantUntaint
		headCloud := asgMax - desired
		headBoth := imin(maxEff, asgMax) - desired
		okCloud := verifOr(rest <= 0, verifOr(j.added == imax(0, imin(rest, headCloud)), j.added == imax(0, imin(rest, headBoth))))
		verifAssert("C03.requests-the-rest", verifImplies(below, okCloud))
		verifAssert("C03.no-cloud-request-when-untaint-suffices", verifImplies(verifAnd(below, rest <= 0), j.increaseAttempts == 0))
		verifReachIf("C03.restored-from-cloud", verifAnd(below, j.added > 0))
	}
	if F == 1 {
		// the one failure hit a Kubernetes call: the cloud side worked, so what could not be untainted
		// (accepted untaint writes are what counts) must be requested
		nodeCallFailed := false
		for _, e := range w.J.Calls[mark:] {
			if !e.OK && (e.Kind == "NodeGet" || e.Kind == "NodeUntaint" || e.Kind == "NodeUpdate") {
				nodeCallFailed = true
			}
		}
		if nodeCallFailed {
			need := minEff - s.untainted
			rest := need - int64(j.untaints)
			headCloud := asgMax - desired
			headBoth := imin(maxEff, asgMax) - desired
			okCloud := verifOr(rest <= 0, verifOr(j.added == imax(0, imin(rest, headCloud)), j.added == imax(0, imin(rest, headBoth))))
			verifAssert("C03.requests-what-untainting-did-not-restore", verifImplies(below, okCloud))
			verifReachIf("C03.untaint-failed-below-minimum", verifAnd(below, rest > 0))
		}
	}
}
