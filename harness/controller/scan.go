//go:build verif

package controller

// Helpers shared by the scan-level harnesses: symbolic population of a group,
// pre-scan snapshot quantities (as terms), and per-group journal summaries.

import (
	"strconv"
)

type thresholds struct{ lower, upper, up int }

var thresholdMenu = []thresholds{{30, 45, 70}, {1, 2, 3}, {40, 60, 100}, {50, 99, 150}}

// symNodes adds N nodes to group g whose snapshot leaves are symbolic.
// prefix distinguishes groups ("" for single-group harnesses).
func (w *vWorld) symNodes(prefix string, g, N int, classes []int, symCordon bool, annots []int, symCreate bool) {
	for i := 0; i < N; i++ {
		is := prefix + "n" + strconv.Itoa(i)
		class := classes[0]
		if len(classes) > 1 {
			class = classes[verifChoice(is+".class", len(classes))]
		}
		cordoned := false
		if symCordon {
			cordoned = verifBool(is + ".cordoned")
		}
		annot := annots[0]
		if len(annots) > 1 {
			annot = annots[verifChoice(is+".annot", len(annots))]
		}
		var taintAge int64
		switch class {
		case tcEsc, tcEscAndForce, tcEscTwice:
			taintAge = verifInt(is+".taintAge", w.minTaintAge, 2000)
		}
		createAge := int64(5000 + 100*i)
		if symCreate {
			createAge = verifInt(is+".createAge", 0, 100000)
		}
		w.addNode(g, class, cordoned, annot, taintAge, createAge, true)
	}
}

// symPods adds P pods selecting group g. placement: 0 = each pod may sit on
// any node of the world, be unscheduled or name an unlisted node; 1 = all
// unscheduled (pending); 2 = pod j on node j mod N.
// cpuMode: <0 symbolic in [0, -cpuMode]; otherwise that many milli-CPU each.
func (w *vWorld) symPods(prefix string, g, P int, placement int, daemonChoice bool, cpuMode int64, pendingChoice bool) {
	N := len(w.nodes)
	for j := 0; j < P; j++ {
		js := prefix + "p" + strconv.Itoa(j)
		node := -1
		switch placement {
		case 0:
			node = verifChoice(js+".node", N+2) - 2
		case 2:
			if N > 0 {
				node = j % N
			}
		}
		daemon := false
		if daemonChoice {
			daemon = verifChoice(js+".daemon", 2) == 1
		}
		cpu := cpuMode
		if cpuMode < 0 {
			cpu = verifInt(js+".cpu", 0, -cpuMode)
		}
		pending := node < 0
		if pendingChoice && node >= 0 {
			pending = verifChoice(js+".pending", 2) == 1
		}
		mem := int64(1 << 20)
		if w.symPodMem {
			// memory-bound workloads: memory symbolic up to three nodes' worth
			if w.memUnit > 1 {
				// whole units (keeps the oracle's integer arithmetic exact and inside int64)
				mem = verifInt(js+".memUnits", 0, 3*w.memPerNode/w.memUnit) * w.memUnit
			} else {
				mem = verifInt(js+".mem", 0, 3*w.memPerNode)
			}
		}
		w.addPod(g, node, daemon, cpu, mem, pending)
	}
}

type snapshot struct {
	untainted, tainted, force, cordoned, total int64 // counts (terms)
	cpuReq, memReq                             int64 // request totals of the group's pods
	cpuCap, memCap                             int64 // allocatable of untainted nodes
	pods                                       int
}

func b2i(b bool) int64 { return verifIte(b, 1, 0) }

// snap computes the pre-scan snapshot of group g as the property reads it.
func (w *vWorld) snap(g int) snapshot {
	var s snapshot
	for _, n := range w.nodes {
		if n.group != g || n.deleted {
			continue
		}
		s.total++
		free := b2i(verifNot(n.cordoned))
		s.cordoned += b2i(n.cordoned)
		switch n.class {
		case tcNone, tcForeign, tcSibling:
			s.untainted += free
		case tcEsc, tcEscGarbage, tcEscEmpty, tcEscTwice:
			s.tainted += free
		case tcForce, tcEscAndForce:
			s.force += free
		}
	}
	s.cpuCap = s.untainted * w.cpuPerNode
	s.memCap = s.untainted * w.memPerNode
	for _, p := range w.pods {
		if p.group != g || p.daemon {
			continue
		}
		s.pods++
		s.cpuReq += p.cpu
		s.memReq += p.mem
	}
	return s
}

type jsum struct {
	taintAdds, untaints, otherUpdates int
	taintAttempts, untaintAttempts    int
	increases                         int   // accepted SetDesiredCapacity above previous desired
	increaseAttempts                  int   // SetDesiredCapacity / CreateFleet attempts
	added                             int64 // total accepted capacity increase
	terminates, deletes               int
	terminateAttempts, deleteAttempts int
	fleet, attach, terminateInstances int
	total                             int
	lastTarget, lastPrev              int64
}

// summarize counts the journalled calls of group g in Calls[from:].
func (w *vWorld) summarize(g int, from int) jsum {
	var s jsum
	asg := w.groups[g].CloudProviderGroupName
	for k := from; k < len(w.J.Calls); k++ {
		e := w.J.Calls[k]
		mine := false
		switch e.Kind {
		case "NodeTaint", "NodeUntaint", "NodeUpdate", "NodeDelete":
			if n := w.nodeByName(e.Node); n != nil && n.group == g {
				mine = true
			}
		case "Terminate":
			if n := w.nodeByInstance(e.Instance); n != nil && n.group == g {
				mine = true
			}
		case "SetDesiredCapacity", "Attach", "CreateOrUpdateTags":
			mine = e.Group == asg
		case "CreateFleet", "TerminateInstances":
			mine = len(w.groups) == 1
		}
		if !mine {
			continue
		}
		s.total++
		switch e.Kind {
		case "NodeTaint":
			s.taintAttempts++
			if e.OK {
				s.taintAdds++
			}
		case "NodeUntaint":
			s.untaintAttempts++
			if e.OK {
				s.untaints++
			}
		case "NodeUpdate":
			s.otherUpdates++
		case "NodeDelete":
			s.deleteAttempts++
			if e.OK {
				s.deletes++
			}
		case "Terminate":
			s.terminateAttempts++
			if e.OK {
				s.terminates++
			}
		case "SetDesiredCapacity":
			s.increaseAttempts++
			s.lastTarget, s.lastPrev = e.N, e.Prev
			if e.OK {
				s.increases++
				s.added += e.N - e.Prev
			}
		case "CreateFleet":
			s.increaseAttempts++
			s.fleet++
		case "Attach":
			s.attach++
			if e.OK {
				s.added += e.N
			}
		case "TerminateInstances":
			s.terminateInstances++
		}
	}
	return s
}

func imin(a, b int64) int64 { return verifIte(a < b, a, b) }
func imax(a, b int64) int64 { return verifIte(a > b, a, b) }

// validOptions assumes the invariants start-up validation guarantees (C16).
func assumeValid(o *NodeGroupOptions) {
	verifAssume(verifAnd(0 <= o.MinNodes, o.MinNodes < o.MaxNodes))
	verifAssume(verifAnd(0 <= o.SlowNodeRemovalRate, o.SlowNodeRemovalRate <= o.FastNodeRemovalRate))
}
