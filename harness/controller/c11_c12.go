//go:build verif

package controller

import (
	"strconv"
	"time"

	"github.com/atlassian/escalator/pkg/cloudprovider/aws"
	v1 "k8s.io/api/core/v1"
)

func init() {
	verifHarnesses["VerifHarness_C11"] = VerifHarness_C11
	verifHarnesses["VerifHarness_C12"] = VerifHarness_C12
}

// twoGroups builds a world with group A ("g0" or, for defaultA, the special
// group "default") processed first and group B ("g1") second. A's inputs are
// named with prefix pa, B's with "B.".
type twoCfg struct {
	pa              string
	nA, nB          int
	dryA, dryGlobal bool
	trackers        bool // dry-mode tracker contents symbolic
	defaultA        bool
	faultsA         bool // symbolic non-fatal faults in A
	emptyA          bool // A has no pods either
	emptyB          bool // B has no nodes and no pods
	podOnNodeA      bool // A's pod may sit on one of A's nodes (non-empty nodes)
	affinityFormsB  bool // B's pod may select B through required node affinity (plus a NotIn on A's value)
	classesA        []int
	slowFleetA      bool // A scales through a launch template whose instances never become ready: its scale-up blocks for 3 s (longer than the 2 s scan interval of that world) and fails
	production      bool // the controller is assembled by the real NewController / NewClient (production.go)
	autoA           bool // A leaves min_nodes/max_nodes out: its bounds are whatever its cloud group reports (also min = max, or 0..0)
}

func buildTwo(c twoCfg) (*vWorld, int, int) {
	w := newWorld(0)
	w.dry = c.dryGlobal
	oa := groupOpts(0)
	if c.defaultA {
		oa.Name = DefaultNodeGroup
	}
	oa.DryMode = c.dryA
	gm := graceMenus[1]
	oa.SoftDeleteGracePeriod, oa.HardDeleteGracePeriod = gm.soft, gm.hard
	oa.MinNodes = int(verifInt(c.pa+"min", 0, int64(c.nA)+1))
	oa.MaxNodes = c.nA + 3
	asgMaxA := int64(c.nA) + 3
	if c.faultsA {
		// cloud refusal: the ASG may already be at its maximum
		asgMaxA = int64(c.nA) + verifInt(c.pa+"asg.headroom", 0, 3)
	}
	if c.slowFleetA {
		oa.AWS.LaunchTemplateID, oa.AWS.LaunchTemplateVersion = "lt-a", "1"
		oa.AWS.FleetInstanceReadyTimeout = "3s"
		w.EC2.ReadyAfter = 0
	}
	asgMinA := int64(0)
	if c.autoA {
		oa.MinNodes, oa.MaxNodes = 0, 0
		asgMinA = verifInt(c.pa+"asg.min", 0, int64(c.nA)+1)
		asgMaxA = verifInt(c.pa+"asg.max", 0, int64(c.nA)+2)
		verifAssume(asgMinA <= asgMaxA) // pinned groups (min = max) are legal in AWS
	}
	a := w.addGroup(oa, asgMinA, asgMaxA, 0)
	ob := groupOpts(1)
	ob.SoftDeleteGracePeriod, ob.HardDeleteGracePeriod = gm.soft, gm.hard
	ob.MinNodes, ob.MaxNodes = 0, c.nB+3
	b := w.addGroup(ob, 0, int64(c.nB)+3, 0)
	w.symNodes(c.pa, a, c.nA, c.classesA, false, []int{0}, false)
	if !c.emptyB {
		w.symNodes("B.", b, c.nB, []int{tcNone, tcEsc, tcForce}, false, []int{0}, false)
	}
	// pods: one per group, pending, symbolic request
	hasPodA := !c.emptyA
	if c.podOnNodeA && !c.emptyA {
		hasPodA = verifChoice(c.pa+"hasPod", 2) == 1 // a group may have nodes and no pods at all
	}
	if hasPodA {
		if c.podOnNodeA && c.nA > 0 {
			// the pod sits on A's first node, or is unscheduled
			node := verifChoice(c.pa+"p0.node", 2) - 1
			w.addPod(a, node, false, verifInt(c.pa+"p0.cpu", 0, 3*w.cpuPerNode), 1<<20, node < 0)
		} else {
			w.symPods(c.pa, a, 1, 1, false, -3*w.cpuPerNode, false)
		}
	}
	if c.defaultA && hasPodA {
		// pods of the default group carry no selector
		w.pods[len(w.pods)-1].obj.Spec.NodeSelector = nil
	}
	if !c.emptyB {
		w.symPods("B.", b, 1, 1, false, -3*w.cpuPerNode, false)
		if c.affinityFormsB && c.nA > 0 && verifChoice("B.p0.onNodeOfA", 2) == 1 {
			// nothing stops another group's pod from running on one of A's nodes; it must not
			// count for A (not for utilisation, not for "is this node empty")
			bp := w.pods[len(w.pods)-1]
			for i, n := range w.nodes {
				if n.group == a {
					w.movePod(bp, i, false)
					break
				}
			}
		}
		if c.affinityFormsB && verifChoice("B.p0.viaAffinity", 2) == 1 {
			// select B through required node affinity and explicitly exclude A's value
			p := w.pods[len(w.pods)-1].obj
			p.Spec.NodeSelector = nil
			p.Spec.Affinity = &v1.Affinity{NodeAffinity: &v1.NodeAffinity{RequiredDuringSchedulingIgnoredDuringExecution: &v1.NodeSelector{
				NodeSelectorTerms: []v1.NodeSelectorTerm{{MatchExpressions: []v1.NodeSelectorRequirement{
					{Key: ob.LabelKey, Operator: v1.NodeSelectorOpNotIn, Values: []string{oa.LabelValue}},
					{Key: ob.LabelKey, Operator: v1.NodeSelectorOpIn, Values: []string{ob.LabelValue}},
				}}}}}}
		}
	}
	if c.faultsA {
		// an instance detached from A's cloud group: removing its node fails with not-in-group
		for _, n := range w.nodes {
			if n.group == a && verifChoice(c.pa+n.name+".detached", 2) == 1 {
				n.obj.Spec.ProviderID = "aws:///az/i-detached-" + n.name
				n.member = false
			}
		}
	}
	if c.faultsA && c.nA > 0 {
		// zero-capacity nodes make the percentage computation fail for A
		if verifChoice(c.pa+"zeroAllocatable", 2) == 1 {
			for _, n := range w.nodes {
				if n.group == a {
					n.obj.Status.Allocatable = nil
				}
			}
		}
	}
	if c.production {
		w.buildProduction()
	} else {
		w.build()
	}
	if c.slowFleetA {
		w.ctrl.Opts.ScanInterval = 2 * time.Second // shorter than A's fleet timeout
	}
	if c.trackers {
		st := w.ctrl.nodeGroups[oa.Name]
		for _, n := range w.nodes {
			if n.group != a {
				continue
			}
			switch verifChoice(c.pa+n.name+".tracker", 3) {
			case 1:
				st.taintTracker = append(st.taintTracker, n.name)
			case 2:
				st.forceTaintTracker = append(st.forceTaintTracker, n.name)
			}
		}
	}
	return w, a, b
}

// groupCalls extracts the journal entries that target group g.
func (w *vWorld) groupCalls(g int, from int) []aws.VerifCall {
	var out []aws.VerifCall
	asg := w.groups[g].CloudProviderGroupName
	for k := from; k < len(w.J.Calls); k++ {
		e := w.J.Calls[k]
		mine := false
		switch e.Kind {
		case "NodeTaint", "NodeUntaint", "NodeUpdate", "NodeDelete":
			if n := w.nodeByName(e.Node); n != nil && n.group == g {
				mine = true
			}
		case "Terminate":
			if n := w.nodeByInstance(e.Instance); n != nil && n.group == g {
				mine = true
			}
		case "SetDesiredCapacity", "Attach", "CreateOrUpdateTags":
			mine = e.Group == asg
		}
		if mine {
			out = append(out, e)
		}
	}
	return out
}

func assertSameCalls(id string, x, y []aws.VerifCall) {
	verifAssert(id+"(count)", len(x) == len(y))
	if len(x) != len(y) {
		return
	}
	for k := range x {
		same := x[k].Kind == y[k].Kind && x[k].Node == y[k].Node && x[k].Instance == y[k].Instance && x[k].Group == y[k].Group && x[k].OK == y[k].OK
		verifAssert(id+"(call)", verifAnd(same, x[k].N == y[k].N))
	}
}

// VerifHarness_C11: dry mode performs no writes, and does not change what
// happens to the other group.
// shape: [nodes A, nodes B, dry switch (0 group option, 1 global flag), class menu of A, controller built by NewController (0/1)]
func VerifHarness_C11() {
	nA, nB, global, menu := verifShape(0), verifShape(1), verifShape(2), verifShape(3)
	classes := [][]int{{tcNone, tcEsc}, {tcNone, tcEsc, tcForce}, {tcNone, tcEscGarbage, tcEscEmpty}}[menu]
	cfg := twoCfg{pa: "A.", nA: nA, nB: nB, trackers: true, classesA: classes, podOnNodeA: true, production: verifShape(4) == 1}
	cfg.dryA, cfg.dryGlobal = global == 0, global == 1
	w1, a1, b1 := buildTwo(cfg)
	verifFreezeClock(w1.base+1, 0)
	_ = w1.ctrl.RunOnce()
	ja := w1.groupCalls(a1, 0)
	verifAssert("C11.dry-group-writes-nothing", len(ja) == 0)
	for _, e := range w1.J.Calls {
		if isMutation(e.Kind) {
			switch e.Kind {
			case "CreateFleet", "TerminateInstances":
				verifAssert("C11.no-fleet-calls", false)
			}
		}
	}
	jb1 := w1.groupCalls(b1, 0)
	if global == 1 {
		verifAssert("C11.global-dry-writes-nothing", w1.mutations(0) == 0)
		verifUnfreezeClock()
		verifReach("C11.global")
		return
	}
	// same world with A not dry: B must be acted on identically
	cfg.dryA = false
	w2, _, b2 := buildTwo(cfg)
	_ = w2.ctrl.RunOnce()
	verifUnfreezeClock()
	jb2 := w2.groupCalls(b2, 0)
	assertSameCalls("C11.other-group-unchanged", jb1, jb2)
	if len(jb1) > 0 {
		verifReach("C11.other-group-acted")
	}
	st := w1.ctrl.nodeGroups["g0"]
	if len(st.taintTracker) > 0 {
		verifReach("C11.tracker-used")
	}
}

// VerifHarness_C12: node groups are isolated from each other.
// shape: [nodes A, nodes B, A is the default group (0/1), A auto-discovers its bounds (0/1), A scales through a fleet that never becomes ready (0/1)]
func VerifHarness_C12() {
	nA, nB, def := verifShape(0), verifShape(1), verifShape(2)
	classes := []int{tcNone, tcEsc, tcForce}
	c1 := twoCfg{pa: "A.", nA: nA, nB: nB, classesA: classes, defaultA: def == 1, faultsA: true, affinityFormsB: true, autoA: verifShape(3) == 1, slowFleetA: verifShape(4) == 1}
	// reference runs: one with A empty (no nodes, no pods: processed, nothing to do), one with
	// B empty. If B is acted on identically whatever A looks like and when A is empty, any two
	// worlds differing only inside A give the same actions on B (and symmetrically for A).
	c2 := twoCfg{pa: "A0.", nA: 0, nB: nB, classesA: classes, defaultA: def == 1, emptyA: true, affinityFormsB: true}
	c3 := c1
	c3.emptyB = true
	w1, a1, b1 := buildTwo(c1)
	verifFreezeClock(w1.base+1, 0)
	err1 := w1.ctrl.RunOnce()
	w2, _, b2 := buildTwo(c2)
	err2 := w2.ctrl.RunOnce()
	w3, a3, _ := buildTwo(c3)
	err3 := w3.ctrl.RunOnce()
	verifUnfreezeClock()
	fatalA := false // the documented stop: a grace-expired tainted node of A that is not in A's cloud group
	for _, n := range w1.nodes {
		if n.group == a1 && !n.member && n.class == tcEsc {
			fatalA = true
		}
	}
	if !fatalA {
		verifAssert("C12.scan-completes", err1 == nil && err2 == nil && err3 == nil)
	} else {
		verifAssert("C12.scan-completes", err2 == nil)
	}
	// every journalled call targets a node or ASG of a configured group
	{
		n := 0
		for g := range w1.groups {
			n += len(w1.groupCalls(g, 0))
		}
		verifAssert("C12.every-call-attributable", n == w1.mutations(0))
	}
	// a group without nodes and pods has nothing done to it or to its cloud group (w2's A, w3's B)
	{
		a2idx := 0
		verifAssert("C12.empty-group-gets-no-calls", len(w2.groupCalls(a2idx, 0)) == 0)
	}
	jb1, jb2 := w1.groupCalls(b1, 0), w2.groupCalls(b2, 0)
	if err1 == nil {
		assertSameCalls("C12.other-group-unaffected", jb1, jb2)
	} else {
		verifAssert("C12.only-not-in-group-stops-the-loop", fatalA)
	}
	ja1, ja3 := w1.groupCalls(a1, 0), w3.groupCalls(a3, 0)
	assertSameCalls("C12.first-group-unaffected-by-later-group", ja1, ja3)
	if len(jb1) > 0 {
		verifReach("C12.b-acted")
	}
	ja := ja1
	if len(ja) > 0 {
		verifReach("C12.a-acted")
	}
	// pods and nodes of A never count for B: B's pod request total is its own pod's
	sB := w1.snap(b1)
	_ = sB
	_ = strconv.Itoa
}
