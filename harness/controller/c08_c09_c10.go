//go:build verif

package controller

import (
	"strconv"

	metav1 "k8s.io/apimachinery/pkg/apis/meta/v1"
)

func init() {
	verifHarnesses["VerifHarness_C08_unreachable"] = VerifHarness_C08_unreachable
	verifHarnesses["VerifHarness_C08"] = VerifHarness_C08
	verifHarnesses["VerifHarness_C09"] = VerifHarness_C09
	verifHarnesses["VerifHarness_C10"] = VerifHarness_C10
}

// writeAttempts marks, per node, whether an escalator write (taint/untaint
// update) was sent for it or the fetch preceding the write failed.
func (w *vWorld) writeAttempts(from int, kind string) (attempted, done []bool) {
	attempted = make([]bool, len(w.nodes))
	done = make([]bool, len(w.nodes))
	for k := from; k < len(w.J.Calls); k++ {
		e := w.J.Calls[k]
		if e.Kind == kind || (e.Kind == "NodeGet" && !e.OK) {
			for i, n := range w.nodes {
				if n.name == e.Node {
					attempted[i] = true
					if e.OK && e.Kind == kind {
						done[i] = true
					}
				}
			}
		}
	}
	return
}

// VerifHarness_C08: scale-down taints the oldest untainted nodes first.
// shape: [nodes, failure budget, zero-time choice (0/1), tainted siblings (0/1), no-delete annotations (0/1)]
func VerifHarness_C08() {
	N, F, zero, sib, ann := verifShape(0), verifShape(1), verifShape(2), verifShape(3), verifShape(4)
	w := newWorld(F)
	o := groupOpts(0)
	o.MinNodes, o.MaxNodes = 0, N+2
	fast := verifInt("fast", 0, int64(N)+1)
	o.FastNodeRemovalRate, o.SlowNodeRemovalRate = int(fast), 0
	dry := verifShape(7) // 1: controller-wide dry mode, 2: the group's own option; "tainting" is then the in-memory tracker
	switch dry {
	case 1:
		w.dry = true
	case 2:
		o.DryMode = true
	}
	g := w.addGroup(o, 0, int64(N)+2, 0)
	classes := []int{tcNone}
	if sib == 1 {
		classes = []int{tcNone, tcEsc}
	}
	if sib == 2 {
		classes = []int{tcNone, tcSibling} // a foreign taint whose key starts like escalator's: the node is untainted
	}
	annots := []int{0}
	if ann == 1 {
		annots = []int{0, 2} // the annotation protects from removal, not from tainting
	}
	w.symNodes("", g, N, classes, dry > 0, annots, true) // in dry mode cordoned nodes are candidates like any other
	noAlloc := false
	if zero == 2 {
		// provider ids that are empty (not yet set by the cloud controller) or shared by two Node objects
		for i, n := range w.nodes {
			switch verifChoice("n"+strconv.Itoa(i)+".providerID", 4) {
			case 3:
				n.obj.Status.Allocatable = nil // kubelet status lost: zero capacity, still a candidate
				noAlloc = true
			case 1:
				n.obj.Spec.ProviderID = ""
			case 2:
				n.obj.Spec.ProviderID = w.nodes[0].obj.Spec.ProviderID
			}
		}
	}
	if zero == 1 {
		for i, n := range w.nodes {
			if verifChoice("n"+strconv.Itoa(i)+".zeroCreation", 2) == 1 {
				n.obj.CreationTimestamp = metav1.Time{}
				n.createAge = w.base + 62135596800
			}
		}
	}
	w.build()
	if verifShape(5) == 1 {
		w.priorScan(g)
	}
	if verifShape(6) == 1 {
		// an earlier scale-down scan in which one taint write was rejected (the node stays
		// untainted on the API server); the scan under test then runs without failures
		w.J.FailBudget = 1
		_ = w.ctrl.RunOnce()
		w.J.FailBudget = w.J.Failed
		for _, e := range w.J.Calls {
			if e.Kind == "NodeTaint" && e.OK {
				if n := w.nodeByName(e.Node); n != nil {
					n.class = tcEsc // what the API server now holds
				}
			}
		}
	}
	mark := len(w.J.Calls)
	_ = w.ctrl.RunOnce()
	attempted, tainted := w.writeAttempts(mark, "NodeTaint")
	if dry > 0 {
		for i, n := range w.nodes {
			for _, name := range w.ctrl.nodeGroups[o.Name].taintTracker {
				if name == n.name {
					attempted[i], tainted[i] = true, true
					verifReach("C08.dry-tracked-one")
				}
			}
		}
	}
	for i, t := range w.nodes {
		if !tainted[i] {
			continue
		}
		verifReach("C08.tainted-one")
		// (in dry mode the taints on the nodes are not consulted: every node not on the tracker is a candidate)
		verifAssert("C08.taints-only-untainted", dry > 0 || t.class == tcNone || t.class == tcSibling)
		for k, u := range w.nodes {
			if k == i || (dry == 0 && u.class != tcNone && u.class != tcSibling) || attempted[k] {
				continue
			}
			verifReach("C08.left-one-untainted")
			// u stays untainted with no write attempted: it must not be strictly older than t
			verifAssert("C08.oldest-first", !(u.createAge > t.createAge))
		}
	}
	if F == 0 && dry == 0 && !noAlloc { // (with capacity missing the group may have no utilisation figure at all)
		j := w.summarize(g, mark)
		s := w.snap(g)
		verifAssert("C08.count", verifImplies(s.untainted > 0, int64(j.taintAdds) == imin(fast, s.untainted)))
	}
}

// VerifHarness_C08_unreachable: a scale-down in which the K oldest nodes cannot be reached at the API
// server (every GET times out). The band's count of taints is still applied, to the oldest nodes
// that can be reached: failed attempts are skipped, not counted and not a reason to stop.
// shape: [nodes (fixed ages, n0 oldest)]
func VerifHarness_C08_unreachable() {
	N := verifShape(0)
	w := newWorld(0)
	o := groupOpts(0)
	o.MinNodes, o.MaxNodes = 1, N+2
	fast := verifInt("fast", 1, 3)
	o.FastNodeRemovalRate, o.SlowNodeRemovalRate = int(fast), 0
	g := w.addGroup(o, 0, int64(N)+2, 0)
	// listing order is not age order: node i has age rank (2i mod N) (N odd), rank 0 = oldest
	byRank := make([]int, N)
	for i := 0; i < N; i++ {
		rank := (2 * i) % N
		byRank[rank] = i
		w.addNode(g, tcNone, false, 0, 0, int64(100000-1000*rank), true)
	}
	K := int(verifInt("unreachableOldest", 0, 3))
	w.unreachable = map[string]bool{}
	for r := 0; r < K && r < N; r++ {
		w.unreachable[w.nodes[byRank[r]].name] = true
	}
	w.build()
	mark := len(w.J.Calls)
	_ = w.ctrl.RunOnce()
	j := w.summarize(g, mark)
	want := imin(imin(fast, int64(N)-1), int64(N-K))
	verifAssert("C08.count-with-unreachable-nodes", int64(j.taintAdds) == want)
	_, tainted := w.writeAttempts(mark, "NodeTaint")
	for r := 0; r < N; r++ {
		verifAssert("C08.oldest-reachable-first", tainted[byRank[r]] == (r >= K && int64(r) < int64(K)+want))
	}
	if K >= 2 {
		verifReach("C08.two-oldest-unreachable")
	}
}

// VerifHarness_C09: cordoned nodes are never touched and never counted.
// shape: [nodes, pods, class menu, prior scan (0/1), max_node_age rotation with symbolic node ages (0/1)]
func VerifHarness_C09() {
	N, P, menu := verifShape(0), verifShape(1), verifShape(2)
	w := newWorld(0)
	o := groupOpts(0)
	gm := graceMenus[1]
	o.SoftDeleteGracePeriod, o.HardDeleteGracePeriod = gm.soft, gm.hard
	minEff := verifInt("min", 0, 1)
	o.MinNodes, o.MaxNodes = int(minEff), N+3
	o.FastNodeRemovalRate, o.SlowNodeRemovalRate = 2, 1
	maxAge := verifShape(4) == 1 // max_node_age rotation on: only untainted (hence uncordoned) nodes can trigger it
	if maxAge {
		o.MaxNodeAge = "24h"
	}
	g := w.addGroup(o, 0, int64(N)+3, 0)
	classes := [][]int{{tcNone, tcEsc, tcForce}, {tcNone, tcEsc, tcForce, tcEscAndForce, tcEscGarbage}}[menu]
	w.symNodes("", g, N, classes, true, []int{0, 2}, maxAge)
	w.symPods("", g, P, 0, false, -3*w.cpuPerNode, false) // pods may sit on cordoned nodes too
	w.build()
	if verifShape(3) == 1 {
		w.priorScan(g) // e.g. the node was cordoned after an earlier scan had seen it schedulable
	}
	s := w.snap(g)
	race := verifShape(5) == 1
	if race && len(w.nodes) > 0 {
		w.raceCordon = w.nodes[0].name // an operator cordons the oldest node just after escalator fetched it
	}
	verifFreezeClock(w.base+1, 0)
	mark := len(w.J.Calls)
	_ = w.ctrl.RunOnce()
	verifUnfreezeClock()
	j := w.summarize(g, mark)
	if race && w.raceDone {
		verifReach("C09.write-raced-with-a-cordon")
	}
	for k := mark; k < len(w.J.Calls); k++ {
		e := w.J.Calls[k]
		if race && !e.OK {
			continue // the write refused because of the race was built on a view in which the node was schedulable
		}
		var n *vNode
		switch e.Kind {
		case "NodeTaint", "NodeUntaint", "NodeUpdate", "NodeDelete":
			n = w.nodeByName(e.Node)
		case "Terminate":
			n = w.nodeByInstance(e.Instance)
		default:
			continue
		}
		if n != nil {
			verifAssert("C09.cordoned-node-untouched", verifNot(n.cordoned))
		}
	}
	verifReachIf("C09.cordoned-tainted-expired", func() bool {
		r := false
		for _, n := range w.nodes {
			if n.class == tcEsc || n.class == tcForce {
				r = verifOr(r, verifAnd(n.cordoned, n.taintAge > 200))
			}
		}
		return r
	}())
	// capacity excludes cordoned nodes: the band decision follows the snapshot
	// computed without them
	normal := verifAnd(verifAnd(minEff <= s.total, s.untainted >= minEff), s.untainted > 0)
	c, m := 100*s.cpuReq, 100*s.memReq
	lo, su := int64(o.TaintLowerCapacityThresholdPercent), int64(o.ScaleUpThresholdPercent)
	fastBand := verifAnd(normal, verifAnd(clearlyBelow(c, lo*s.cpuCap), clearlyBelow(m, lo*s.memCap)))
	upBand := verifAnd(normal, clearlyAbove(c, su*s.cpuCap))
	if race {
		return // (the refused write makes the attempt counts of the band oracles differ)
	}
	verifAssert("C09.capacity-excludes-cordoned(low)", verifImplies(fastBand, int64(j.taintAttempts) == imin(2, s.untainted-minEff)))
	verifAssert("C09.capacity-excludes-cordoned(high)", verifImplies(upBand, verifAnd(j.taintAttempts == 0, j.untaintAttempts+j.increaseAttempts >= 1)))
	verifReachIf("C09.cordoned-changes-band", verifAnd(upBand, s.cordoned > 0))
	if maxAge {
		up := int64(o.TaintUpperCapacityThresholdPercent)
		idle := verifAnd(normal, verifAnd(clearlyAbove(c, up*s.cpuCap), clearlyBelow(c, su*s.cpuCap)))
		noOldCounted, oldCordoned := true, false
		for _, n := range w.nodes {
			young := n.createAge+5 < 86400 // (a few seconds of clock slack)
			if n.class == tcNone {
				noOldCounted = verifAnd(noOldCounted, verifOr(n.cordoned, young))
				oldCordoned = verifOr(oldCordoned, verifAnd(n.cordoned, n.createAge > 86400+5))
			}
		}
		quiet := verifAnd(j.taintAttempts == 0, j.untaintAttempts+j.increaseAttempts == 0)
		verifAssert("C09.cordoned-node-age-does-not-drive-rotation", verifImplies(verifAnd(idle, noOldCounted), quiet))
		verifReachIf("C09.old-cordoned-node-in-idle-band", verifAnd(verifAnd(idle, noOldCounted), oldCordoned))
	}
}

// VerifHarness_C10: the no-delete annotation protects from removal only.
// shape: [nodes, pods, band (0 low: scale-down path, 2 idle: reaper path), failure budget]
func VerifHarness_C10() {
	N, P, band, F := verifShape(0), verifShape(1), verifShape(2), verifShape(3)
	w := newWorld(F)
	o := groupOpts(0)
	gm := graceMenus[verifChoice("grace", 2)]
	o.SoftDeleteGracePeriod, o.HardDeleteGracePeriod = gm.soft, gm.hard
	o.MinNodes, o.MaxNodes = 0, N+3
	o.FastNodeRemovalRate, o.SlowNodeRemovalRate = 1, 1
	g := w.addGroup(o, 0, int64(N)+3, 0)
	w.symNodes("", g, N, []int{tcNone, tcEsc, tcForce}, false, []int{0, 1, 2, 3, 4}, false)
	cpu := int64(10)
	if band == 2 {
		cpu = -2 * w.cpuPerNode
	}
	w.symPods("", g, P, 0, false, cpu, false)
	w.build()
	if verifShape(4) == 1 {
		w.priorScan(g) // e.g. the annotation was added after an earlier scan
	}
	s := w.snap(g)
	cs := verifInt("clock.sec", 0, 2)
	cn := verifInt("clock.nsec", 0, 999999999)
	verifFreezeClock(w.base+cs, cn)
	mark := len(w.J.Calls)
	_ = w.ctrl.RunOnce()
	verifUnfreezeClock()
	j := w.summarize(g, mark)
	opts := &w.groups[g]
	removed := make([]bool, len(w.nodes))
	for k := mark; k < len(w.J.Calls); k++ {
		e := w.J.Calls[k]
		for i, n := range w.nodes {
			if (e.Kind == "Terminate" && e.Instance == n.instance) || (e.Kind == "NodeDelete" && e.Node == n.name) {
				removed[i] = true
			}
		}
	}
	soft := int64(opts.SoftDeleteGracePeriodDuration())
	hard := int64(opts.HardDeleteGracePeriodDuration())
	// did the scan reach the reaper? (not the scale-up path, not an early return)
	reaper := verifAnd(s.untainted > 0, clearlyBelow(100*s.cpuReq, int64(o.ScaleUpThresholdPercent)*s.cpuCap))
	if P == 0 {
		reaper = true // no pods: utilisation 0, scale-down path, which reaps first
	}
	for i, n := range w.nodes {
		force := n.class == tcForce
		if n.annotated && !force {
			verifAssert("C10.annotated-never-removed", !removed[i])
			ageNs := (w.base+cs-n.taintTs)*1000000000 + cn
			if n.class == tcEsc {
				verifReachIf("C10.annotated-past-hard-grace-kept", ageNs > hard)
			}
		}
		if n.class == tcEsc && !n.annotated {
			// an eligible node is removed even when a sibling is annotated
			ageNs := (w.base+cs-n.taintTs)*1000000000 + cn
			eligible := verifOr(verifAnd(n.groupPods == 0, ageNs > soft), ageNs > hard)
			if F == 0 {
				verifAssert("C10.eligible-node-still-removed", verifImplies(verifAnd(reaper, eligible), removed[i]))
			}
			if n.annotKey {
				verifReachIf("C10.empty-annotation-unprotected", verifAnd(reaper, eligible))
			}
			for _, sib := range w.nodes {
				if sib.annotated && sib.class == tcEsc {
					verifReachIf("C10.removed-beside-annotated-sibling", verifAnd(reaper, eligible))
				}
			}
		}
	}
	// annotated nodes count toward capacity and can be tainted like any other
	if band == 0 && F == 0 {
		normal := verifAnd(s.untainted > 0, clearlyBelow(100*s.cpuReq, int64(o.TaintLowerCapacityThresholdPercent)*s.cpuCap))
		verifAssert("C10.annotated-still-tainted", verifImplies(normal, int64(j.taintAttempts) == imin(1, s.untainted)))
		for k := mark; k < len(w.J.Calls); k++ {
			e := w.J.Calls[k]
			if e.Kind == "NodeTaint" {
				if n := w.nodeByName(e.Node); n != nil && n.annotated {
					verifReach("C10.annotated-node-tainted")
				}
			}
		}
	}
}
