//go:build verif

package controller

// Shared world model for the scan-level harnesses: a cluster (nodes, pods),
// a Kubernetes client fake that journals writes, and the real AWS provider
// over the simulated AWS of pkg/cloudprovider/aws/zz_verif_fake_aws.go.
// The Controller is assembled exactly the way the repo's tests do it.

import (
	"context"
	"errors"
	"fmt"
	"strconv"
	"strings"
	"time"

	"github.com/atlassian/escalator/pkg/cloudprovider"
	"github.com/atlassian/escalator/pkg/cloudprovider/aws"
	"github.com/atlassian/escalator/pkg/k8s"
	"github.com/stephanos/clock"
	v1 "k8s.io/api/core/v1"
	apierrors "k8s.io/apimachinery/pkg/api/errors"
	"k8s.io/apimachinery/pkg/api/resource"
	metav1 "k8s.io/apimachinery/pkg/apis/meta/v1"
	"k8s.io/apimachinery/pkg/labels"
	"k8s.io/apimachinery/pkg/runtime/schema"
	"k8s.io/client-go/kubernetes"
	corev1 "k8s.io/client-go/kubernetes/typed/core/v1"
	v1lister "k8s.io/client-go/listers/core/v1"
)

// verifFreezeClock pins the mockable clock used by the reaper
// (github.com/stephanos/clock) at the given instant.
func verifFreezeClock(sec, nsec int64) {
	clock.Work = clock.NewMock().FreezeAt(time.Unix(sec, nsec))
}

func verifUnfreezeClock() { clock.Work = clock.New() }

// taint classes of a node in the pre-scan snapshot
const (
	tcNone        = iota // no escalator-related taint
	tcEsc                // escalator taint, decimal timestamp
	tcEscGarbage         // escalator taint, unparsable value
	tcForce              // force-removal taint only
	tcEscAndForce        // both
	tcForeign            // an unrelated taint
	tcEscEmpty           // escalator taint with empty value
	tcSibling            // a foreign taint whose key merely starts with escalator's key: the node is untainted for escalator
	tcEscTwice           // escalator taint twice (NoSchedule, then a foreign taint, then NoExecute), decimal timestamps
)

type vNode struct {
	name      string
	group     int
	class     int
	cordoned  bool  // symbolic
	taintAge  int64 // seconds before T0 the taint value says (symbolic)
	taintTs   int64
	annotated bool
	annotKey  bool // annotation key present (possibly with empty value)
	createAge int64
	instance  string
	member    bool // provider id names an instance of the group's ASG
	obj       *v1.Node
	deleted   bool
	groupPods int // non-daemonset pods of the node's group placed on it
}

type vPod struct {
	group   int
	node    int // index of node, -1 pending, -2 ghost node name
	daemon  bool
	cpu     int64
	mem     int64
	pending bool
	obj     *v1.Pod
}

type vWorld struct {
	nodeAPIDownAfter int // > 0: from the (nodeAPIDownAfter+1)-th node API call on, every node API call times out
	nodeAPICalls     int
	raceCordon       string // node that an operator cordons right after escalator fetched it; escalator's next write to it conflicts
	raced, raceDone  bool
	unreachable      map[string]bool // nodes whose GET times out at the API server (every time)
	escEffect        v1.TaintEffect  // effect carried by the escalator taints already on nodes ("" = NoSchedule)
	memUnit          int64           // when > 1: symbolic pod memory comes in multiples of this many bytes
	podLists         int             // listings of all pods (one per group and scan)
	onPodList        func()          // hook run at each of them
	J                *aws.VerifJournal
	AS               *aws.VerifAutoScaling
	EC2              *aws.VerifEC2
	base             int64
	nodes            []*vNode
	pods             []*vPod
	groups           []NodeGroupOptions
	ctrl             *Controller
	builder          *aws.VerifBuilder
	dry              bool
	failNodeList     bool
	failPodList      bool
	cpuPerNode       int64
	memPerNode       int64
	minTaintAge      int64 // most negative taint age (seconds): a taint time in the future
	symPodMem        bool  // pod memory requests symbolic (memory-bound workloads)
	typedAPIErrors   bool  // injected Kubernetes failures may be typed (NotFound / Conflict)
}

func newWorld(failBudget int) *vWorld {
	j := &aws.VerifJournal{FailBudget: failBudget}
	as := &aws.VerifAutoScaling{J: j}
	w := &vWorld{J: j, AS: as, base: verifNowUnix(), cpuPerNode: 4000, memPerNode: 16 << 30, minTaintAge: -60, typedAPIErrors: failBudget > 0}
	w.EC2 = &aws.VerifEC2{J: j, AS: as, FleetSize: -1, ReadyAfter: 1, LaunchUnix: w.base - 600}
	return w
}

func groupOpts(g int) NodeGroupOptions {
	gs := strconv.Itoa(g)
	return NodeGroupOptions{
		Name:                               "g" + gs,
		LabelKey:                           "group",
		LabelValue:                         "g" + gs,
		CloudProviderGroupName:             "asg" + gs,
		MinNodes:                           0,
		MaxNodes:                           10,
		TaintLowerCapacityThresholdPercent: 30,
		TaintUpperCapacityThresholdPercent: 45,
		ScaleUpThresholdPercent:            70,
		SlowNodeRemovalRate:                1,
		FastNodeRemovalRate:                2,
		SoftDeleteGracePeriod:              "5m",
		HardDeleteGracePeriod:              "15m",
		ScaleUpCoolDownPeriod:              "10m",
		TaintEffect:                        v1.TaintEffectNoSchedule,
	}
}

func (w *vWorld) addGroup(o NodeGroupOptions, asgMin, asgMax, extraDesired int64) int {
	w.groups = append(w.groups, o)
	w.AS.Groups = append(w.AS.Groups, &aws.VerifASG{Name: o.CloudProviderGroupName, Min: asgMin, Max: asgMax, Desired: extraDesired, VPC: "subnet-a,subnet-b", Tagged: true})
	return len(w.groups) - 1
}

// addNode adds a node of the given group. class / cordon / annotation are the
// pre-scan snapshot; ages are seconds before T0.
func (w *vWorld) addNode(g int, class int, cordoned bool, annot int, taintAge, createAge int64, member bool) *vNode {
	idx := 0
	for _, m := range w.nodes {
		if m.group == g {
			idx++
		}
	}
	// single-group worlds keep the short names n0, n1, ...; with several groups
	// the name carries the group so that it does not depend on the other groups
	name := "n" + strconv.Itoa(idx)
	if g > 0 || len(w.groups) > 1 {
		name = "g" + strconv.Itoa(g) + "n" + strconv.Itoa(idx)
	}
	o := w.groups[g]
	n := &vNode{name: name, group: g, class: class, cordoned: cordoned, taintAge: taintAge, createAge: createAge, member: member}
	// instance ids of one group are prefixes of one another (i-g0a, i-g0ab, i-g0abb, ...): ids must be
	// compared whole, as AWS's mixed 8- and 17-digit ids demand
	n.instance = "i-g" + strconv.Itoa(g) + "a" + strings.Repeat("b", idx)
	n.taintTs = w.base - taintAge
	obj := &v1.Node{}
	obj.Name = name
	obj.Labels = map[string]string{o.LabelKey: o.LabelValue}
	obj.CreationTimestamp = metav1.Time{Time: time.Unix(w.base-createAge, 0)}
	obj.Spec.Unschedulable = cordoned
	if member {
		obj.Spec.ProviderID = "aws:///az/" + n.instance
	} else {
		obj.Spec.ProviderID = "aws:///az/i-foreign" + name
	}
	switch annot {
	case 1:
		obj.Annotations = map[string]string{NodeEscalatorIgnoreAnnotation: ""}
		n.annotKey = true
	case 2:
		obj.Annotations = map[string]string{NodeEscalatorIgnoreAnnotation: "keep"}
		n.annotKey, n.annotated = true, true
	case 3:
		obj.Annotations = map[string]string{"cluster-autoscaler.kubernetes.io/scale-down-disabled": "false", NodeEscalatorIgnoreAnnotation: "false", "other": "x"}
		n.annotKey, n.annotated = true, true
	case 4:
		obj.Annotations = map[string]string{NodeEscalatorIgnoreAnnotation: " "} // non-empty, though only a blank: protects
		n.annotKey, n.annotated = true, true
	}
	esc := func(val string) v1.Taint {
		return v1.Taint{Key: k8s.ToBeRemovedByAutoscalerKey, Value: val, Effect: w.effectOnNodes()}
	}
	force := v1.Taint{Key: k8s.ToBeForceRemovedByAutoscalerKey, Value: "x", Effect: v1.TaintEffectNoSchedule}
	switch class {
	case tcEsc:
		obj.Spec.Taints = []v1.Taint{esc(fmt.Sprint(n.taintTs))}
	case tcEscGarbage:
		obj.Spec.Taints = []v1.Taint{esc(w.garbageValue())}
	case tcForce:
		obj.Spec.Taints = []v1.Taint{force}
	case tcEscAndForce:
		obj.Spec.Taints = []v1.Taint{esc(fmt.Sprint(n.taintTs)), force}
	case tcForeign:
		obj.Spec.Taints = []v1.Taint{{Key: "example.com/other", Value: "1", Effect: v1.TaintEffectNoExecute}}
	case tcEscEmpty:
		obj.Spec.Taints = []v1.Taint{esc("")}
	case tcSibling:
		obj.Spec.Taints = []v1.Taint{{Key: k8s.ToBeRemovedByAutoscalerKey + "-reserved", Value: "team", Effect: v1.TaintEffectPreferNoSchedule}}
	case tcEscTwice:
		second := esc(fmt.Sprint(n.taintTs))
		second.Effect = v1.TaintEffectNoExecute
		obj.Spec.Taints = []v1.Taint{esc(fmt.Sprint(n.taintTs)), {Key: "example.com/other", Value: "1", Effect: v1.TaintEffectNoExecute}, second}
	}
	obj.Status.Allocatable = v1.ResourceList{
		v1.ResourceCPU:    *resource.NewMilliQuantity(w.cpuPerNode, resource.DecimalSI),
		v1.ResourceMemory: *resource.NewQuantity(w.memPerNode, resource.BinarySI),
	}
	n.obj = obj
	w.nodes = append(w.nodes, n)
	if member {
		asg := w.AS.Group(o.CloudProviderGroupName)
		asg.Instances = append(asg.Instances, aws.VerifInstance{ID: n.instance, AZ: "az"})
		asg.Desired++
	}
	return n
}

// addPod adds a pod selecting group g. node: index into w.nodes, -1 = not
// scheduled, -2 = a node name that is not listed.
func (w *vWorld) addPod(g int, node int, daemon bool, cpu, mem int64, pending bool) *vPod {
	idx := len(w.pods)
	o := w.groups[g]
	_ = idx
	p := &vPod{group: g, node: node, daemon: daemon, cpu: cpu, mem: mem, pending: pending}
	obj := &v1.Pod{}
	obj.Name = "p" + strconv.Itoa(idx)
	obj.Namespace = "ns"
	obj.Spec.NodeSelector = map[string]string{o.LabelKey: o.LabelValue}
	switch {
	case node >= 0:
		obj.Spec.NodeName = w.nodes[node].name
	case node == -2:
		obj.Spec.NodeName = "ghost"
	}
	if daemon {
		obj.OwnerReferences = []metav1.OwnerReference{{Kind: "DaemonSet", Name: "ds"}}
	}
	obj.Spec.Containers = []v1.Container{{
		Name: "c",
		Resources: v1.ResourceRequirements{Requests: v1.ResourceList{
			v1.ResourceCPU:    *resource.NewMilliQuantity(cpu, resource.DecimalSI),
			v1.ResourceMemory: *resource.NewQuantity(mem, resource.BinarySI),
		}},
	}}
	if pending {
		obj.Status.Phase = v1.PodPending
	} else {
		obj.Status.Phase = v1.PodRunning
		obj.Status.Conditions = []v1.PodCondition{{Type: v1.PodScheduled, Status: v1.ConditionTrue}}
	}
	p.obj = obj
	w.pods = append(w.pods, p)
	if node >= 0 && !daemon && w.nodes[node].group == g {
		w.nodes[node].groupPods++
	}
	return p
}

// ---- Kubernetes fakes -------------------------------------------------------

type vKube struct {
	kubernetes.Interface
	w    *vWorld
	real kubernetes.Interface // natively, for harnesses built through NewController: the clientset the informers list and watch with
}

func (k *vKube) CoreV1() corev1.CoreV1Interface {
	c := &vCore{w: k.w}
	if k.real != nil {
		c.CoreV1Interface = k.real.CoreV1() // RESTClient() for the informers; node writes stay with the fake below
	}
	return c
}

type vCore struct {
	corev1.CoreV1Interface
	w *vWorld
}

func (c *vCore) Nodes() corev1.NodeInterface { return &vNodes{w: c.w} }

type vNodes struct {
	corev1.NodeInterface
	w *vWorld
}

func (w *vWorld) find(name string) *vNode {
	for _, n := range w.nodes {
		if n.name == name && !n.deleted {
			return n
		}
	}
	return nil
}

func copyNode(n *v1.Node) *v1.Node {
	c := *n
	c.Spec.Taints = append([]v1.Taint(nil), n.Spec.Taints...)
	return &c
}

func hasTaintKey(n *v1.Node, key string) bool {
	for _, t := range n.Spec.Taints {
		if t.Key == key {
			return true
		}
	}
	return false
}

// apiError picks the kind of an injected Kubernetes API failure: a plain error or
// the typed error a real API server returns.
func (w *vWorld) apiError(api, name string, typed *apierrors.StatusError) error {
	if (w.typedAPIErrors || w.J.FailBudget > 0) && verifChoice("errkind_"+strconv.Itoa(w.J.Seq)+"_"+api, 2) == 1 {
		return typed
	}
	return errors.New("injected " + api + " failure")
}

func (s *vNodes) Get(ctx context.Context, name string, opts metav1.GetOptions) (*v1.Node, error) {
	c := aws.VerifCall{Kind: "NodeGet", Node: name}
	s.w.nodeAPICalls++
	if s.w.unreachable[name] || (s.w.nodeAPIDownAfter > 0 && s.w.nodeAPICalls > s.w.nodeAPIDownAfter) {
		s.w.J.Calls = append(s.w.J.Calls, c)
		return nil, apierrors.NewServerTimeout(schema.GroupResource{Resource: "nodes"}, "get", 1)
	}
	if s.w.J.Fail("NodeGet") {
		s.w.J.Calls = append(s.w.J.Calls, c)
		return nil, s.w.apiError("NodeGet", name, apierrors.NewNotFound(schema.GroupResource{Resource: "nodes"}, name))
	}
	n := s.w.find(name)
	if n == nil {
		s.w.J.Calls = append(s.w.J.Calls, c)
		return nil, errors.New("node not found")
	}
	c.OK = true
	s.w.J.Calls = append(s.w.J.Calls, c)
	got := copyNode(n.obj)
	if s.w.raceCordon == name && !s.w.raced {
		// the operator's cordon lands right after this read
		s.w.raced = true
		cordoned := copyNode(n.obj)
		cordoned.Spec.Unschedulable = true
		n.obj, n.cordoned = cordoned, true
	}
	return got, nil
}

func (s *vNodes) Update(ctx context.Context, node *v1.Node, opts metav1.UpdateOptions) (*v1.Node, error) {
	c := aws.VerifCall{Kind: "NodeUpdate", Node: node.Name}
	n := s.w.find(node.Name)
	if n != nil {
		before := hasTaintKey(n.obj, k8s.ToBeRemovedByAutoscalerKey)
		after := hasTaintKey(node, k8s.ToBeRemovedByAutoscalerKey)
		switch {
		case !before && after:
			c.Kind = "NodeTaint"
		case before && !after:
			c.Kind = "NodeUntaint"
		}
	}
	s.w.nodeAPICalls++
	if s.w.nodeAPIDownAfter > 0 && s.w.nodeAPICalls > s.w.nodeAPIDownAfter {
		s.w.J.Calls = append(s.w.J.Calls, c)
		return nil, apierrors.NewServerTimeout(schema.GroupResource{Resource: "nodes"}, "update", 1)
	}
	if s.w.raceCordon == node.Name && s.w.raced && !s.w.raceDone {
		s.w.raceDone = true // the write built on the stale read is refused
		s.w.J.Calls = append(s.w.J.Calls, c)
		return nil, apierrors.NewConflict(schema.GroupResource{Resource: "nodes"}, node.Name, errors.New("the object has been modified"))
	}
	if s.w.J.Fail("NodeUpdate") {
		s.w.J.Calls = append(s.w.J.Calls, c)
		return nil, s.w.apiError("NodeUpdate", node.Name, apierrors.NewConflict(schema.GroupResource{Resource: "nodes"}, node.Name, errors.New("the object has been modified")))
	}
	if n == nil {
		s.w.J.Calls = append(s.w.J.Calls, c)
		return nil, errors.New("node not found")
	}
	c.OK = true
	s.w.J.Calls = append(s.w.J.Calls, c)
	n.obj = copyNode(node)
	return copyNode(node), nil
}

func (s *vNodes) Delete(ctx context.Context, name string, opts metav1.DeleteOptions) error {
	c := aws.VerifCall{Kind: "NodeDelete", Node: name}
	if s.w.J.Fail("NodeDelete") {
		s.w.J.Calls = append(s.w.J.Calls, c)
		return errors.New("injected node delete failure")
	}
	n := s.w.find(name)
	if n == nil {
		s.w.J.Calls = append(s.w.J.Calls, c)
		return errors.New("node not found")
	}
	c.OK = true
	s.w.J.Calls = append(s.w.J.Calls, c)
	n.deleted = true
	return nil
}

type vPodLister struct {
	v1lister.PodLister
	w *vWorld
}

func (l *vPodLister) List(sel labels.Selector) ([]*v1.Pod, error) {
	l.w.podLists++
	if l.w.onPodList != nil {
		l.w.onPodList()
	}
	if l.w.failPodList {
		return nil, errors.New("injected pod list failure")
	}
	out := make([]*v1.Pod, 0, len(l.w.pods))
	for _, p := range l.w.pods {
		out = append(out, p.obj)
	}
	return out, nil
}

type vNodeLister struct {
	v1lister.NodeLister
	w *vWorld
}

func (l *vNodeLister) List(sel labels.Selector) ([]*v1.Node, error) {
	if l.w.failNodeList {
		return nil, errors.New("injected node list failure")
	}
	out := make([]*v1.Node, 0, len(l.w.nodes))
	for _, n := range l.w.nodes {
		if !n.deleted {
			out = append(out, n.obj)
		}
	}
	return out, nil
}

// build assembles the Controller the way the repo's tests do: listers from the
// real constructors, state from BuildNodeGroupsState (fresh in-memory state =
// a controller that has just (re)started), real AWS provider over the fakes.
func (w *vWorld) build() {
	kube := &vKube{w: w}
	allPods := &vPodLister{w: w}
	allNodes := &vNodeLister{w: w}
	listers := make(map[string]*NodeGroupLister)
	var configs []cloudprovider.NodeGroupConfig
	for _, ng := range w.groups {
		if ng.Name == DefaultNodeGroup {
			listers[ng.Name] = NewDefaultNodeGroupLister(allPods, allNodes, ng)
		} else {
			listers[ng.Name] = NewNodeGroupLister(allPods, allNodes, ng)
		}
		configs = append(configs, cloudprovider.NodeGroupConfig{
			Name:    ng.Name,
			GroupID: ng.CloudProviderGroupName,
			AWSConfig: cloudprovider.AWSNodeGroupConfig{
				LaunchTemplateID:          ng.AWS.LaunchTemplateID,
				LaunchTemplateVersion:     ng.AWS.LaunchTemplateVersion,
				FleetInstanceReadyTimeout: ng.AWS.FleetInstanceReadyTimeoutDuration(),
				Lifecycle:                 ng.AWS.Lifecycle,
				InstanceTypeOverrides:     ng.AWS.InstanceTypeOverrides,
				ResourceTagging:           ng.AWS.ResourceTagging,
			},
		})
	}
	client := &Client{kube, listers, allPods, allNodes}
	w.builder = &aws.VerifBuilder{Service: w.AS, EC2: w.EC2, Configs: configs}
	opts := Opts{
		K8SClient:            kube,
		NodeGroups:           w.groups,
		CloudProviderBuilder: w.builder,
		ScanInterval:         time.Minute,
		DryMode:              w.dry,
	}
	saved := w.J.FailBudget
	w.J.FailBudget = 0 // start-up is not under test
	cloud, err := aws.VerifNewCloudProvider(w.AS, w.EC2, configs...)
	w.J.FailBudget = saved
	if err != nil {
		panic(err)
	}
	state := BuildNodeGroupsState(nodeGroupsStateOpts{nodeGroups: w.groups, client: *client})
	w.ctrl = &Controller{
		Client:        client,
		Opts:          opts,
		stopChan:      nil,
		nodeGroups:    state,
		cloudProvider: cloud,
	}
	w.builder.J = w.J
}

// ---- journal queries ---------------------------------------------------------

func (w *vWorld) nodeByInstance(id string) *vNode {
	for _, n := range w.nodes {
		if n.instance == id {
			return n
		}
	}
	return nil
}

func (w *vWorld) nodeByName(name string) *vNode {
	for _, n := range w.nodes {
		if n.name == name {
			return n
		}
	}
	return nil
}

func (w *vWorld) count(kind string, okOnly bool) int {
	c := 0
	for _, e := range w.J.Calls {
		if e.Kind == kind && (!okOnly || e.OK) {
			c++
		}
	}
	return c
}

func isMutation(kind string) bool {
	switch kind {
	case "SetDesiredCapacity", "Terminate", "Attach", "CreateFleet", "TerminateInstances", "CreateOrUpdateTags", "NodeUpdate", "NodeTaint", "NodeUntaint", "NodeDelete":
		return true
	}
	return false
}

func (w *vWorld) mutations(from int) int {
	c := 0
	for k := from; k < len(w.J.Calls); k++ {
		if isMutation(w.J.Calls[k].Kind) {
			c++
		}
	}
	return c
}

// retaint rewrites the escalator-related taints of a node between scans
// (an external actor, or time passing, changed the cluster).
func (w *vWorld) retaint(n *vNode, class int, taintAge int64) {
	n.class = class
	n.taintAge = taintAge
	n.taintTs = w.base - taintAge
	obj := copyNode(n.obj)
	obj.Spec.Taints = nil
	esc := v1.Taint{Key: k8s.ToBeRemovedByAutoscalerKey, Value: fmt.Sprint(n.taintTs), Effect: w.effectOnNodes()}
	force := v1.Taint{Key: k8s.ToBeForceRemovedByAutoscalerKey, Value: "x", Effect: v1.TaintEffectNoSchedule}
	switch class {
	case tcEsc:
		obj.Spec.Taints = []v1.Taint{esc}
	case tcEscGarbage:
		esc.Value = w.garbageValue()
		obj.Spec.Taints = []v1.Taint{esc}
	case tcEscEmpty:
		esc.Value = ""
		obj.Spec.Taints = []v1.Taint{esc}
	case tcForce:
		obj.Spec.Taints = []v1.Taint{force}
	case tcEscAndForce:
		obj.Spec.Taints = []v1.Taint{esc, force}
	case tcForeign:
		obj.Spec.Taints = []v1.Taint{{Key: "example.com/other", Value: "1", Effect: v1.TaintEffectNoExecute}}
	case tcSibling:
		obj.Spec.Taints = []v1.Taint{{Key: k8s.ToBeRemovedByAutoscalerKey + "-reserved", Value: "team", Effect: v1.TaintEffectPreferNoSchedule}}
	case tcEscTwice:
		second := esc
		second.Effect = v1.TaintEffectNoExecute
		obj.Spec.Taints = []v1.Taint{esc, {Key: "example.com/other", Value: "1", Effect: v1.TaintEffectNoExecute}, second}
	}
	n.obj = obj
}

func (w *vWorld) effectOnNodes() v1.TaintEffect {
	if w.escEffect == "" {
		return v1.TaintEffectNoSchedule
	}
	return w.escEffect
}

// movePod re-places a pod between scans.
func (w *vWorld) movePod(p *vPod, node int, daemon bool) {
	if p.node >= 0 && !p.daemon && w.nodes[p.node].group == p.group {
		w.nodes[p.node].groupPods--
	}
	obj := *p.obj
	obj.Spec.NodeName = ""
	switch {
	case node >= 0:
		obj.Spec.NodeName = w.nodes[node].name
	case node == -2:
		obj.Spec.NodeName = "ghost"
	}
	obj.OwnerReferences = nil
	if daemon {
		obj.OwnerReferences = []metav1.OwnerReference{{Kind: "DaemonSet", Name: "ds"}}
	}
	p.obj, p.node, p.daemon = &obj, node, daemon
	if node >= 0 && !daemon && w.nodes[node].group == p.group {
		w.nodes[node].groupPods++
	}
}

// viaAffinity makes a pod select its group through required node affinity: one term whose first
// requirement is about something else (a zone), whose second is a non-In requirement on the group's
// key and whose third names the group's label value with In.
func (w *vWorld) viaAffinity(p *vPod, on bool) {
	if !on {
		return
	}
	o := w.groups[p.group]
	obj := *p.obj
	obj.Spec.NodeSelector = nil
	obj.Spec.Affinity = &v1.Affinity{NodeAffinity: &v1.NodeAffinity{RequiredDuringSchedulingIgnoredDuringExecution: &v1.NodeSelector{
		NodeSelectorTerms: []v1.NodeSelectorTerm{{MatchExpressions: []v1.NodeSelectorRequirement{
			{Key: "topology.kubernetes.io/zone", Operator: v1.NodeSelectorOpIn, Values: []string{"az"}},
			{Key: o.LabelKey, Operator: v1.NodeSelectorOpExists},
			{Key: o.LabelKey, Operator: v1.NodeSelectorOpIn, Values: []string{o.LabelValue}},
		}}}}}}
	p.obj = &obj
}

// terminating marks a pod as being deleted (deletion timestamp set) while it is still running.
func (w *vWorld) terminating(p *vPod, on bool) {
	if !on {
		return
	}
	obj := *p.obj
	ts := metav1.NewTime(time.Unix(w.base-30, 0))
	obj.DeletionTimestamp = &ts
	p.obj = &obj
}

// garbageValue: what an unreadable escalator taint holds in this world -- anything that is
// not a decimal integer, including spellings other parsers would take for numbers.
func (w *vWorld) garbageValue() string {
	return []string{"garbage", "0x10", "1_000"}[verifChoice("garbageTaintValue", 3)]
}

// makeStatic turns a pod into a static (kubelet-managed, mirror) pod. For a labelled group it
// still is one of the group's pods: it counts as a request and keeps its node non-empty.
func (w *vWorld) makeStatic(p *vPod, static bool) {
	obj := *p.obj
	obj.Annotations = nil
	if static {
		obj.Annotations = map[string]string{"kubernetes.io/config.source": "file"}
	}
	p.obj = &obj
}

// setPodCPU replaces a pod's CPU request (pods come and go between scans).
func (w *vWorld) setPodCPU(p *vPod, cpu int64) {
	p.cpu = cpu
	obj := *p.obj
	obj.Spec.Containers = []v1.Container{{
		Name: "c",
		Resources: v1.ResourceRequirements{Requests: v1.ResourceList{
			v1.ResourceCPU:    *resource.NewMilliQuantity(cpu, resource.DecimalSI),
			v1.ResourceMemory: *resource.NewQuantity(p.mem, resource.BinarySI),
		}},
	}}
	p.obj = &obj
}

// priorScan runs an earlier, uneventful scan of the same controller before the
// snapshot under test: every node is shown untainted, schedulable and
// un-annotated, every pod sits on the group's first node and utilisation is in
// the idle band, so escalator does nothing but fill its in-memory state
// (node->pods map, cached node size, delta). Then the cluster is put back to
// the snapshot the harness built. Anything escalator remembers wrongly from
// the earlier scan shows up in the scan under test.
func (w *vWorld) priorScan(g int) {
	type nodeSave struct {
		obj       *v1.Node
		class     int
		cordoned  bool
		annotated bool
		annotKey  bool
		taintAge  int64
		taintTs   int64
		groupPods int
	}
	type podSave struct {
		obj    *v1.Pod
		node   int
		daemon bool
		cpu    int64
	}
	var ns []nodeSave
	var ps []podSave
	first := -1
	count := int64(0)
	for i, n := range w.nodes {
		ns = append(ns, nodeSave{n.obj, n.class, n.cordoned, n.annotated, n.annotKey, n.taintAge, n.taintTs, n.groupPods})
		if n.group != g {
			continue
		}
		if first < 0 {
			first = i
		}
		count++
		plain := copyNode(n.obj)
		plain.Spec.Taints = nil
		plain.Spec.Unschedulable = false
		plain.Annotations = nil
		n.obj, n.class, n.cordoned, n.annotated, n.annotKey = plain, tcNone, false, false, false
	}
	npods := int64(0)
	for _, p := range w.pods {
		if p.group == g {
			npods++
		}
	}
	for _, p := range w.pods {
		ps = append(ps, podSave{p.obj, p.node, p.daemon, p.cpu})
		if p.group != g || first < 0 {
			continue
		}
		w.movePod(p, first, false)
		// half-way between the upper taint threshold and the scale-up threshold
		o := w.groups[g]
		pct10 := int64(o.TaintUpperCapacityThresholdPercent+o.ScaleUpThresholdPercent) * 5
		w.setPodCPU(p, count*w.cpuPerNode*pct10/1000/npods)
	}
	mut := w.mutations(0)
	_ = w.ctrl.RunOnce()
	// histories whose earlier scan acted (e.g. a max_node_age rotation) are not this shape's subject
	verifAssume(w.mutations(0) == mut)
	for i, n := range w.nodes {
		s := ns[i]
		n.obj, n.class, n.cordoned, n.annotated, n.annotKey = s.obj, s.class, s.cordoned, s.annotated, s.annotKey
		n.taintAge, n.taintTs, n.groupPods = s.taintAge, s.taintTs, s.groupPods
	}
	for i, p := range w.pods {
		s := ps[i]
		p.obj, p.node, p.daemon, p.cpu = s.obj, s.node, s.daemon, s.cpu
	}
}
