//go:build verif

package controller

import (
	"math"

	k8s_resource "github.com/atlassian/escalator/pkg/k8s/resource"
	v1 "k8s.io/api/core/v1"
)

func init() {
	verifHarnesses["VerifHarness_C05_kernel"] = VerifHarness_C05_kernel
}

// VerifHarness_C05_kernel: calcPercentUsage + calcScaleUpDelta on n equal-size
// nodes; request totals symbolic; oracle in exact integer arithmetic.
// shape: [n, threshold, milliCPU per node, MiB per node, request multiple, (optional) exact bytes per node]
func VerifHarness_C05_kernel() {
	n := int64(verifShape(0))
	T := int64(verifShape(1))
	cpu1 := int64(verifShape(2))       // milli-CPU per node
	mem1 := int64(verifShape(3)) << 20 // bytes per node
	if b := int64(verifShape(5)); b > 0 {
		mem1 = b // exact byte size (optional 6th shape parameter)
	}
	mult := int64(verifShape(4)) // requests up to mult x capacity
	cpuReq := verifInt("cpuReq", 0, mult*n*cpu1)
	memReq := verifInt("memReq", 0, mult*n*mem1)

	nodes := make([]*v1.Node, n)
	cpuReqQ := *k8s_resource.NewCPUQuantity(cpuReq)
	memReqQ := *k8s_resource.NewMemoryQuantity(memReq)
	cpuPct, memPct, err := calcPercentUsage(cpuReqQ, memReqQ,
		*k8s_resource.NewCPUQuantity(n * cpu1), *k8s_resource.NewMemoryQuantity(n * mem1), n)
	verifAssert("C05.percent-no-error", err == nil)

	ng := &NodeGroupState{Opts: NodeGroupOptions{Name: "g", ScaleUpThresholdPercent: int(T)}}
	if math.Max(cpuPct, memPct) > float64(T) {
		verifReach("C05.above-threshold")
		delta, err := calcScaleUpDelta(nodes, cpuPct, memPct, cpuReqQ, memReqQ, ng)
		verifAssert("C05.delta-no-error", err == nil)
		d := int64(delta)
		// capacity of (n+d) nodes at the threshold, in units of 1/100 milli.
		// known finding K-C05: float64 rounding leaves the result one node short
		// when the exact requirement exceeds that capacity by a relative 2^-30 or less
		suffCPU := 100*cpuReq <= T*cpu1*(n+d)
		nearCPU := 100*cpuReq-T*cpu1*(n+d) <= (T*cpu1*(n+d))>>30
		verifAssert("C05.sufficient-cpu", verifOr(suffCPU, verifKnown("K-C05", nearCPU)))
		suffMem := 100*memReq <= T*mem1*(n+d)
		nearMem := 100*memReq-T*mem1*(n+d) <= (T*mem1*(n+d))>>30
		verifAssert("C05.sufficient-mem", verifOr(suffMem, verifKnown("K-C05", nearMem)))
		tightCPU := 100*cpuReq > T*cpu1*(n+d-2)
		tightMem := 100*memReq > T*mem1*(n+d-2)
		verifAssert("C05.at-most-one-extra", verifOr(d < 2, verifOr(tightCPU, tightMem)))
	} else {
		verifReach("C05.at-or-below-threshold")
	}
}
