//go:build verif

package controller

// Conformance harnesses for the engine's environment model: the equations
// below must hold both in the executor (where resource.Quantity and time are
// modelled) and natively (where the real libraries run). Every shape is
// replayed natively (sampled passing paths), so a wrong stub shows up as a
// mismatch between the two. Run with `./check selftest`.

import (
	"math"
	"time"

	"k8s.io/apimachinery/pkg/api/resource"
	metav1 "k8s.io/apimachinery/pkg/apis/meta/v1"
)

func init() {
	verifHarnesses["VerifHarness_conf_quantity"] = VerifHarness_conf_quantity
	verifHarnesses["VerifHarness_conf_time"] = VerifHarness_conf_time
	verifHarnesses["VerifHarness_conf_float"] = VerifHarness_conf_float
}

func ceilDiv1000AwayFromZero(v int64) int64 {
	q := v / 1000
	if v%1000 != 0 {
		if v > 0 {
			q++
		} else {
			q--
		}
	}
	return q
}

// shape: [mode (0 concrete value from the shape, 1 symbolic), value / 1000, value % 1000 part]
func VerifHarness_conf_quantity() {
	var v int64
	if verifShape(0) == 0 {
		v = int64(verifShape(1))
	} else {
		v = verifInt("v", -5000000, 5000000)
	}
	q := resource.NewQuantity(v, resource.DecimalSI)
	verifAssert("conf.quantity.value", q.Value() == v)
	verifAssert("conf.quantity.iszero", q.IsZero() == (v == 0))
	// the library multiplies with wrap-around (and reports overflow separately, which MilliValue drops)
	verifAssert("conf.quantity.milli", q.MilliValue() == v*1000 || v == math.MinInt64)
	m := resource.NewMilliQuantity(v, resource.DecimalSI)
	verifAssert("conf.milliquantity.milli", m.MilliValue() == v)
	verifAssert("conf.milliquantity.value-rounds-away-from-zero", m.Value() == ceilDiv1000AwayFromZero(v))
	verifAssert("conf.milliquantity.sign", (m.Sign() > 0) == (v > 0) && (m.Sign() < 0) == (v < 0))
	verifReach("conf.quantity")
}

// shape: [mode, seconds a, nanoseconds a, seconds b]
func VerifHarness_conf_time() {
	var sa, na, sb int64
	if verifShape(0) == 0 {
		sa, na, sb = int64(verifShape(1)), int64(verifShape(2)), int64(verifShape(3))
	} else {
		sa = verifInt("sa", -10000000000, 30000000000)
		na = verifInt("na", 0, 999999999)
		sb = verifInt("sb", -10000000000, 30000000000)
	}
	a, b := time.Unix(sa, na), time.Unix(sb, 0)
	d := a.Sub(b)
	exact := (sa-sb)*1000000000 + na
	if sa-sb < 9200000000 && sa-sb > -9200000000 {
		verifAssert("conf.time.sub", int64(d) == exact)
	} else if sa-sb > 9300000000 {
		verifAssert("conf.time.sub-saturates-high", d == time.Duration(math.MaxInt64))
	} else if sa-sb < -9300000000 {
		verifAssert("conf.time.sub-saturates-low", d == time.Duration(math.MinInt64))
	}
	verifAssert("conf.time.before", a.Before(b) == (sa < sb))
	verifAssert("conf.time.after", a.After(b) == (sa > sb || (sa == sb && na > 0)))
	verifAssert("conf.time.equal", a.Equal(b) == (sa == sb && na == 0))
	verifAssert("conf.time.unix", a.Unix() == sa && b.Unix() == sb)
	verifAssert("conf.time.add", a.Add(5*time.Second).Unix() == sa+5)
	var z time.Time
	if sa > -62135596800 {
		verifAssert("conf.time.zero", z.IsZero() && !a.IsZero() && z.Before(a))
		ma, mz := metav1.Time{Time: a}, metav1.Time{}
		verifAssert("conf.metav1.before", mz.Before(&ma) && !ma.Before(&mz))
	} else if sa == -62135596800 && na == 0 {
		verifAssert("conf.time.is-zero-time", a.IsZero() && a.Equal(z))
	}
	verifAssert("conf.duration.seconds", time.Duration(2500*time.Millisecond).Seconds() == 2.5)
	verifReach("conf.time")
}

// float64 model: results of the real float operations satisfy the envelope
// the engine assumes (checked natively on the sampled inputs).
func VerifHarness_conf_float() {
	x := verifInt("x", 0, 1<<40)
	c := int64(verifShape(0))
	f := float64(x) / float64(c) * 100
	// |f*c - 100x| <= 2^-50 * 100x
	lhs := f * float64(c)
	tol := 1.0 / (1 << 50)
	verifAssert("conf.float.envelope", lhs >= float64(100*x)*(1-tol) && lhs <= float64(100*x)*(1+tol))
	verifAssert("conf.float.ceil", math.Ceil(f) >= f && int64(math.Ceil(f)) <= int64(f)+1)
	verifAssert("conf.float.max", math.Max(f, 1) >= 1 && math.Max(f, 1) >= f)
	verifAssert("conf.float.int", float64(int(f)) <= f)
	verifReach("conf.float")
}
