//go:build verif

package controller

import "strconv"

func init() {
	verifHarnesses["VerifHarness_C04"] = VerifHarness_C04
}

// VerifHarness_C04: the requested cloud target never exceeds
// min(max_nodes, cloud group maximum); clamped requests land on the bound.
// shape: [nodes, pods, failure budget, class menu, prior scale-up scan (0/1), launch-template mode (0/1), describe calls down in the scan under test (0/1)]
func VerifHarness_C04() {
	N, P, F, menu := verifShape(0), verifShape(1), verifShape(2), verifShape(3)
	w := newWorld(F)
	o := groupOpts(0)
	th := thresholdMenu[verifChoice("thresholds", 2)]
	o.TaintLowerCapacityThresholdPercent, o.TaintUpperCapacityThresholdPercent, o.ScaleUpThresholdPercent = th.lower, th.upper, th.up
	asgMin := verifInt("asg.min", 0, int64(N))
	asgMax := verifInt("asg.max", 1, int64(N)+4)
	extra := verifInt("asg.extraDesired", 0, 3)
	minEff := verifInt("min", 0, int64(N)+1)
	maxEff := verifInt("max", 1, int64(N)+4)
	o.MinNodes, o.MaxNodes = int(minEff), int(maxEff)
	verifAssume(minEff < maxEff)
	verifAssume(asgMin < asgMax)
	prior := verifShape(4) == 1
	fleet := verifShape(5) == 1 // launch-template mode: capacity arrives by attaching instances on top of the real desired size
	if fleet {
		o.AWS.LaunchTemplateID, o.AWS.LaunchTemplateVersion = "lt-1", "1"
		o.AWS.FleetInstanceReadyTimeout = "1500ms"
	}
	classes := [][]int{{tcNone, tcEsc}, {tcNone, tcEsc, tcForce}}[menu]
	var g int
	if !prior {
		g = w.addGroup(o, asgMin, asgMax, extra)
		w.symNodes("", g, N, classes, false, []int{0}, false)
		w.symPods("", g, P, 1, false, -8*w.cpuPerNode, false)
	} else {
		// an earlier scan of the same controller that scaled the cloud group up; after its
		// cool-down the cloud group's limits and the cluster change to the snapshot under test
		o.ScaleUpCoolDownPeriod = "1s"
		w.groups = nil
		g = w.addGroup(o, 0, int64(N)+4, 0)
		w.symNodes("", g, N, []int{tcNone}, false, []int{0}, false)
		w.symPods("", g, P, 1, false, int64(N)*w.cpuPerNode*80/100/int64(P), false) // 80%: a small scale-up, well below every ceiling
	}
	if fleet {
		w.EC2.ReadyAfter = 1
		w.J.TypedErrors = true // a failing cloud call: plain error, AWS throttling, or AWS ValidationError "... not found"
	}
	asg := w.AS.Group(o.CloudProviderGroupName)
	if !prior {
		verifAssume(verifAnd(asgMin <= asg.Desired, asg.Desired <= asgMax))
	}
	w.build()
	if prior {
		_ = w.ctrl.RunOnce()
		verifSleepSeconds(3)
		// the cloud group's own limits are changed from outside
		verifAssume(verifAnd(asgMin <= asg.Desired, asg.Desired <= asgMax))
		asg.Min, asg.Max = asgMin, asgMax
		for i, n := range w.nodes {
			is := "n" + strconv.Itoa(i)
			class := classes[verifChoice(is+".class", len(classes))]
			var age int64
			if class == tcEsc {
				age = verifInt(is+".taintAge", -60, 2000)
			}
			w.retaint(n, class, age)
		}
		for j, p := range w.pods {
			w.setPodCPU(p, verifInt("p"+strconv.Itoa(j)+".cpu", 0, 8*w.cpuPerNode))
		}
	}
	if verifShape(6) == 1 {
		// the cloud's describe calls are throttled from now on: escalator cannot refresh what it
		// knows about the group (whose limits have just changed) nor rebuild its provider
		w.AS.DescribeDown = true
		w.J.TypedErrors = true // throttled, rejected, or failing for no stated reason
	}
	desired := asg.Desired
	s := w.snap(g)
	mark := len(w.J.Calls)
	errScan := w.ctrl.RunOnce()
	j := w.summarize(g, mark)
	if verifShape(6) == 1 && errScan != nil {
		verifReach("C04.scan-without-fresh-cloud-state-gives-up")
	}

	bound := imin(maxEff, asgMax)
	for k := mark; k < len(w.J.Calls); k++ {
		e := w.J.Calls[k]
		if e.Kind == "Attach" {
			// fleet mode: the attached instances raise the real desired size by their number
			verifReach("C04.fleet-attach")
			verifAssert("C04.attach-within-bound", e.Prev+e.N <= bound)
			continue
		}
		if e.Kind != "SetDesiredCapacity" {
			continue
		}
		verifReach("C04.cloud-request")
		verifAssert("C04.target-within-bound", e.N <= bound)
		verifAssert("C04.no-request-without-headroom", e.Prev < bound)
		verifAssert("C04.request-increases", e.N > e.Prev)
	}
	if fleet {
		// launch-template mode has no SetDesiredCapacity to read the target from: "lands on the
		// bound" is what the attaches add up to
		attached := int64(0)
		for _, e := range w.J.Calls[mark:] {
			if e.Kind == "Attach" && e.OK {
				attached += e.N
			}
		}
		j.increaseAttempts, j.lastTarget = 0, desired+attached
		if attached > 0 {
			j.increaseAttempts = 1
		}
	}
	if F == 0 && verifShape(6) == 0 {
		// below-minimum recovery: the wanted amount is observable
		below := verifAnd(s.untainted < minEff, verifAnd(minEff <= s.total, s.total <= maxEff))
		need := minEff - s.untainted
		rest := need - imin(need, s.tainted)
		clampedBelow := verifAnd(below, verifAnd(rest > 0, desired+rest > bound))
		verifAssert("C04.clamp-lands-on-bound(recovery)", verifImplies(verifAnd(clampedBelow, desired < bound),
			verifAnd(j.increaseAttempts == 1, j.lastTarget == bound)))
		// utilisation scale-up: if even (tainted + headroom + 1) more nodes could
		// not bring utilisation to the threshold, the request must land on the bound
		inBounds := verifAnd(s.untainted >= minEff, verifAnd(minEff <= s.total, s.total <= maxEff))
		T := int64(th.up)
		head := bound - desired
		hopeless := 100*s.cpuReq > T*w.cpuPerNode*(s.untainted+s.tainted+head+1)
		must := verifAnd(verifAnd(inBounds, s.untainted > 0), verifAnd(hopeless, head > 0))
		verifAssert("C04.clamp-lands-on-bound(scale-up)", verifImplies(must, verifAnd(j.increaseAttempts == 1, j.lastTarget == bound)))
		verifReachIf("C04.clamped-scale-up", must)
		verifReachIf("C04.max-nodes-below-cloud-max", verifAnd(maxEff < asgMax, j.increaseAttempts > 0))
	}
}
