//go:build verif

package controller

// The controller as production builds it: the real NewController and NewClient (group listers
// chosen per configured group, dry mode and auto-discovery resolved per group, provider built by
// the builder). Only the informer plumbing differs between the two modes of a harness:
//   - under the solver, k8s.NewCachePodWatcher / NewCacheNodeWatcher / WaitForSync are replaced
//     by the stand-ins below (harnessRedirects in the engine), which hand out the world's fake
//     all-pods / all-nodes listers;
//   - natively a small in-process API server serves the world's pods and nodes and the real
//     informers list and watch it.
// Such worlds are static: one scan, nothing changes behind the informers' back.

import (
	"encoding/json"
	"net/http"
	"net/http/httptest"
	"strconv"
	"time"

	"github.com/atlassian/escalator/pkg/cloudprovider"
	"github.com/atlassian/escalator/pkg/cloudprovider/aws"
	v1 "k8s.io/api/core/v1"
	metav1 "k8s.io/apimachinery/pkg/apis/meta/v1"
	"k8s.io/client-go/kubernetes"
	v1lister "k8s.io/client-go/listers/core/v1"
	"k8s.io/client-go/rest"
	"k8s.io/client-go/tools/cache"
)

func init() {
	verifHarnesses["VerifHarness_C14_production"] = VerifHarness_C14_production
}

var verifWorld *vWorld // the world whose listers stand in for the informer caches under the solver

func verifStubNewCachePodWatcher(client kubernetes.Interface, stop <-chan struct{}) (v1lister.PodLister, cache.InformerSynced, error) {
	return &vPodLister{w: verifWorld}, func() bool { return true }, nil
}

func verifStubNewCacheNodeWatcher(client kubernetes.Interface, stop <-chan struct{}) (v1lister.NodeLister, cache.InformerSynced, error) {
	return &vNodeLister{w: verifWorld}, func() bool { return true }, nil
}

func verifStubWaitForSync(tries int, stopChan <-chan struct{}, informers ...cache.InformerSynced) bool {
	return true
}

// serveAPI answers the informers' list requests from the world and holds their watches open.
func (w *vWorld) serveAPI(rw http.ResponseWriter, r *http.Request) {
	rw.Header().Set("Content-Type", "application/json")
	if q := r.URL.Query().Get("watch"); q == "true" || q == "1" {
		rw.WriteHeader(http.StatusOK)
		if f, ok := rw.(http.Flusher); ok {
			f.Flush()
		}
		<-r.Context().Done()
		return
	}
	switch r.URL.Path {
	case "/api/v1/pods":
		list := v1.PodList{TypeMeta: metav1.TypeMeta{Kind: "PodList", APIVersion: "v1"}, ListMeta: metav1.ListMeta{ResourceVersion: "1"}}
		for _, p := range w.pods {
			list.Items = append(list.Items, *p.obj)
		}
		_ = json.NewEncoder(rw).Encode(list)
	case "/api/v1/nodes":
		list := v1.NodeList{TypeMeta: metav1.TypeMeta{Kind: "NodeList", APIVersion: "v1"}, ListMeta: metav1.ListMeta{ResourceVersion: "1"}}
		for _, n := range w.nodes {
			if !n.deleted {
				list.Items = append(list.Items, *n.obj)
			}
		}
		_ = json.NewEncoder(rw).Encode(list)
	default:
		rw.WriteHeader(http.StatusNotFound)
	}
}

// buildProduction assembles the controller through the real NewController.
func (w *vWorld) buildProduction() {
	verifWorld = w
	kube := &vKube{w: w}
	var configs []cloudprovider.NodeGroupConfig
	for _, ng := range w.groups {
		configs = append(configs, cloudprovider.NodeGroupConfig{
			Name:    ng.Name,
			GroupID: ng.CloudProviderGroupName,
			AWSConfig: cloudprovider.AWSNodeGroupConfig{
				LaunchTemplateID:          ng.AWS.LaunchTemplateID,
				LaunchTemplateVersion:     ng.AWS.LaunchTemplateVersion,
				FleetInstanceReadyTimeout: ng.AWS.FleetInstanceReadyTimeoutDuration(),
				Lifecycle:                 ng.AWS.Lifecycle,
			},
		})
	}
	w.builder = &aws.VerifBuilder{Service: w.AS, EC2: w.EC2, Configs: configs}
	if !verifIsSymbolic() {
		srv := httptest.NewServer(http.HandlerFunc(w.serveAPI)) // left running until the test binary exits
		cs, err := kubernetes.NewForConfig(&rest.Config{Host: srv.URL})
		if err != nil {
			panic(err)
		}
		kube.real = cs
	}
	opts := Opts{
		K8SClient:            kube,
		NodeGroups:           w.groups,
		CloudProviderBuilder: w.builder,
		ScanInterval:         time.Minute,
		DryMode:              w.dry,
	}
	saved := w.J.FailBudget
	w.J.FailBudget = 0 // start-up is not under test
	ctrl, err := NewController(opts, make(chan struct{}))
	w.J.FailBudget = saved
	if err != nil {
		panic(err)
	}
	w.ctrl = ctrl
	w.builder.J = w.J
}

// VerifHarness_C14_production: attribution through the listers production builds (NewClient):
// the group named default and a labelled group, in either configuration order; every pod is one
// of: selecting the labelled group, bare (no selector, no affinity), DaemonSet-owned selecting the
// group, a static bare pod. Nodes carry one of the two labels.
// shape: [configuration order (0 default first, 1 labelled first), pods]
func VerifHarness_C14_production() {
	order, P := verifShape(0), verifShape(1)
	w := newWorld(0)
	od := groupOpts(0)
	od.Name = DefaultNodeGroup
	od.MinNodes, od.MaxNodes = 0, 5
	ol := groupOpts(1)
	ol.MinNodes, ol.MaxNodes = 0, 5
	// only the exact name "default" makes a group the catch-all group
	ol.Name = []string{"g1", "Default", " default "}[verifChoice("labelledGroupName", 3)]
	var gd, gl int
	if order == 0 {
		gd = w.addGroup(od, 0, 5, 0)
		gl = w.addGroup(ol, 0, 5, 0)
	} else {
		gl = w.addGroup(ol, 0, 5, 0)
		gd = w.addGroup(od, 0, 5, 0)
	}
	w.addNode(gd, tcNone, false, 0, 0, 5000, true)
	w.addNode(gl, tcNone, false, 0, 0, 5100, true)
	kinds := make([]int, P)
	for j := 0; j < P; j++ {
		kinds[j] = verifChoice("p"+strconv.Itoa(j)+".kind", 4)
		p := w.addPod(gl, -1, kinds[j] == 2, 100, 1<<20, true)
		switch kinds[j] {
		case 1: // bare
			p.obj.Spec.NodeSelector = nil
		case 3: // static bare
			p.obj.Spec.NodeSelector = nil
			p.obj.Annotations = map[string]string{"kubernetes.io/config.source": "file"}
		}
	}
	w.buildProduction()
	names := func(pods []*v1.Pod) map[string]bool {
		m := map[string]bool{}
		for _, p := range pods {
			m[p.Name] = true
		}
		return m
	}
	gotL, errL := w.ctrl.Client.Listers[ol.Name].Pods.List()
	gotD, errD := w.ctrl.Client.Listers[od.Name].Pods.List()
	verifAssert("C14.lister-no-error", errL == nil && errD == nil)
	inL, inD := names(gotL), names(gotD)
	for j, k := range kinds {
		name := w.pods[j].obj.Name
		verifAssert("C14.production-lister-attribution", inL[name] == (k == 0))
		verifAssert("C14.production-default-lister-attribution", inD[name] == (k == 1))
	}
	nodesL, _ := w.ctrl.Client.Listers[ol.Name].Nodes.List()
	nodesD, _ := w.ctrl.Client.Listers[od.Name].Nodes.List()
	verifAssert("C14.production-node-attribution", len(nodesL) == 1 && len(nodesD) == 1 && nodesL[0].Labels[ol.LabelKey] == ol.LabelValue && nodesD[0].Labels[od.LabelKey] == od.LabelValue)
	verifReach("C14.production")
}
