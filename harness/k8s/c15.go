//go:build verif

package k8s

import (
	"context"
	"errors"
	"strconv"
	"time"

	apiv1 "k8s.io/api/core/v1"
	apierrors "k8s.io/apimachinery/pkg/api/errors"
	"k8s.io/apimachinery/pkg/api/resource"
	metav1 "k8s.io/apimachinery/pkg/apis/meta/v1"
	"k8s.io/apimachinery/pkg/runtime/schema"
	"k8s.io/client-go/kubernetes"
	corev1 "k8s.io/client-go/kubernetes/typed/core/v1"
)

func init() {
	verifHarnesses["VerifHarness_C15_add"] = VerifHarness_C15_add
	verifHarnesses["VerifHarness_C15_delete"] = VerifHarness_C15_delete
}

type c15Kube struct {
	kubernetes.Interface
	s *c15Store
}

func (k *c15Kube) CoreV1() corev1.CoreV1Interface { return &c15Core{s: k.s} }

type c15Core struct {
	corev1.CoreV1Interface
	s *c15Store
}

func (c *c15Core) Nodes() corev1.NodeInterface { return &c15Nodes{s: c.s} }

type c15Store struct {
	latest  *apiv1.Node // what the API server holds
	failGet bool
	failPut bool
	nilGet  bool
	puts    []*apiv1.Node
	gets    int
	// conflict: another writer updates the node between our read and our first write (it adds
	// a taint and an annotation); that write is rejected with 409 Conflict, later ones are applied
	conflict bool
	// dropFirst: the concurrent writer also removes the node's first taint (when that is not escalator's)
	dropFirst bool
	dropped   bool
	applied   int
}

type c15Nodes struct {
	corev1.NodeInterface
	s *c15Store
}

func c15Copy(n *apiv1.Node) *apiv1.Node {
	c := *n
	c.Spec.Taints = append([]apiv1.Taint(nil), n.Spec.Taints...)
	return &c
}

func (n *c15Nodes) Get(ctx context.Context, name string, opts metav1.GetOptions) (*apiv1.Node, error) {
	n.s.gets++
	if n.s.failGet {
		return nil, errors.New("injected get failure")
	}
	if n.s.nilGet {
		return nil, nil
	}
	return c15Copy(n.s.latest), nil
}

func (n *c15Nodes) Update(ctx context.Context, node *apiv1.Node, opts metav1.UpdateOptions) (*apiv1.Node, error) {
	n.s.puts = append(n.s.puts, c15Copy(node))
	if n.s.failPut {
		return nil, errors.New("injected update failure")
	}
	if n.s.conflict && len(n.s.puts) == 1 {
		cur := c15Copy(n.s.latest)
		if n.s.dropFirst && len(cur.Spec.Taints) > 0 && cur.Spec.Taints[0].Key != ToBeRemovedByAutoscalerKey {
			cur.Spec.Taints = cur.Spec.Taints[1:] // e.g. the node lifecycle controller lifts not-ready
			n.s.dropped = true
		}
		cur.Spec.Taints = append(cur.Spec.Taints, apiv1.Taint{Key: "node.kubernetes.io/unreachable", Effect: apiv1.TaintEffectNoExecute})
		ann := map[string]string{"heartbeat": "2"}
		for k, v := range cur.Annotations {
			ann[k] = v
		}
		cur.Annotations = ann
		n.s.latest = cur
		return nil, apierrors.NewConflict(schema.GroupResource{Resource: "nodes"}, node.Name, errors.New("the object has been modified"))
	}
	n.s.latest = c15Copy(node)
	n.s.applied++
	return c15Copy(node), nil
}

var c15Effects = []apiv1.TaintEffect{"", apiv1.TaintEffectNoSchedule, apiv1.TaintEffectNoExecute, apiv1.TaintEffectPreferNoSchedule}

// c15Node builds the server-side node: `foreign` unrelated taints and, when
// escAt >= 0, the escalator taint at that slot.
func c15Node(foreign, escAt int, escValue string) *apiv1.Node {
	n := &apiv1.Node{}
	n.Name = "node-a"
	n.Labels = map[string]string{"group": "g0", "zone": "az"}
	n.Annotations = map[string]string{"atlassian.com/no-delete": "keep", "note": "x"}
	n.CreationTimestamp = metav1.Time{Time: time.Unix(1500000000, 0)}
	n.Spec.ProviderID = "aws:///az/i-1"
	n.Spec.PodCIDR = "10.0.0.0/24"
	n.Spec.Unschedulable = verifBool("unschedulable")
	n.Status.Allocatable = apiv1.ResourceList{apiv1.ResourceCPU: *resource.NewMilliQuantity(4000, resource.DecimalSI)}
	k := 0
	total := foreign
	if escAt >= 0 {
		total++
	}
	for slot := 0; slot < total; slot++ {
		if slot == escAt {
			esc := apiv1.Taint{Key: ToBeRemovedByAutoscalerKey, Value: escValue, Effect: apiv1.TaintEffectNoSchedule}
			if verifChoice("escTimeAdded", 2) == 1 {
				// what the API server stamps on NoExecute taints: a pointer, a different one in every copy of the object
				esc.Effect = apiv1.TaintEffectNoExecute
				esc.TimeAdded = &metav1.Time{Time: time.Unix(1500000100, 0)}
			}
			n.Spec.Taints = append(n.Spec.Taints, esc)
			continue
		}
		ks := strconv.Itoa(k)
		eff := []apiv1.TaintEffect{apiv1.TaintEffectNoSchedule, apiv1.TaintEffectNoExecute}[k%2]
		key := "example.com/t" + ks
		if k == 1 {
			key = ToBeForceRemovedByAutoscalerKey
		}
		n.Spec.Taints = append(n.Spec.Taints, apiv1.Taint{Key: key, Value: "v" + ks, Effect: eff})
		k++
	}
	return n
}

func sameTaint(a, b apiv1.Taint) bool {
	return a.Key == b.Key && a.Value == b.Value && a.Effect == b.Effect
}

// otherFieldsEqual compares everything but Spec.Taints.
func otherFieldsEqual(a, b *apiv1.Node) bool {
	if a.Name != b.Name || a.Spec.ProviderID != b.Spec.ProviderID || a.Spec.PodCIDR != b.Spec.PodCIDR {
		return false
	}
	if len(a.Labels) != len(b.Labels) || len(a.Annotations) != len(b.Annotations) {
		return false
	}
	for k, v := range a.Labels {
		if b.Labels[k] != v {
			return false
		}
	}
	for k, v := range a.Annotations {
		if b.Annotations[k] != v {
			return false
		}
	}
	if !a.CreationTimestamp.Time.Equal(b.CreationTimestamp.Time) {
		return false
	}
	if len(a.Status.Allocatable) != len(b.Status.Allocatable) {
		return false
	}
	return true
}

// multisetMinus checks that `got` equals `want` as a multiset of taints.
func sameTaintMultiset(got, want []apiv1.Taint) bool {
	if len(got) != len(want) {
		return false
	}
	used := make([]bool, len(want))
	for _, g := range got {
		found := false
		for k, w := range want {
			if !used[k] && sameTaint(g, w) {
				used[k] = true
				found = true
				break
			}
		}
		if !found {
			return false
		}
	}
	return true
}

// VerifHarness_C15_add: AddToBeRemovedTaint adds exactly one taint and never
// re-stamps a node that already carries it.
// shape: [foreign taints]
func VerifHarness_C15_add() {
	foreign := verifShape(0)
	escAt := verifChoice("escAt", foreign+2) - 1 // -1: server copy not tainted
	base := verifNowUnix()
	old := verifInt("oldStamp", 0, 2000000000)
	server := c15Node(foreign, escAt, strconv.FormatInt(old, 10))
	store := &c15Store{latest: server}
	switch verifChoice("fault", 4) {
	case 1:
		store.failGet = true
	case 2:
		store.failPut = true
	case 3:
		store.nilGet = true
	}
	effect := c15Effects[verifChoice("effect", len(c15Effects))]
	// the node the caller holds comes from the cache and may be stale: it never has the taint
	stale := c15Node(foreign, -1, "")
	got, err := AddToBeRemovedTaint(stale, &c15Kube{s: store}, effect)

	if escAt >= 0 {
		verifReach("C15.already-tainted")
		verifAssert("C15.no-restamp(no write)", len(store.puts) == 0)
		if !store.failGet && !store.nilGet {
			verifAssert("C15.no-restamp(returns server copy)", err == nil && got != nil)
			t, ok := GetToBeRemovedTaint(got)
			verifAssert("C15.no-restamp(value kept)", ok && t.Value == strconv.FormatInt(old, 10))
		}
		return
	}
	if store.failGet || store.nilGet {
		verifAssert("C15.get-failure-reported", err != nil && len(store.puts) == 0)
		verifReach("C15.get-failed")
		return
	}
	verifAssert("C15.one-write", len(store.puts) == 1)
	if len(store.puts) != 1 {
		return
	}
	put := store.puts[0]
	verifAssert("C15.add-preserves-other-fields", otherFieldsEqual(put, server) && put.Spec.Unschedulable == server.Spec.Unschedulable)
	verifAssert("C15.add-one-taint", len(put.Spec.Taints) == len(server.Spec.Taints)+1)
	if len(put.Spec.Taints) != len(server.Spec.Taints)+1 {
		return
	}
	// the foreign taints are all still there and exactly one escalator taint was added
	var rest []apiv1.Taint
	var added []apiv1.Taint
	for _, t := range put.Spec.Taints {
		if t.Key == ToBeRemovedByAutoscalerKey {
			added = append(added, t)
		} else {
			rest = append(rest, t)
		}
	}
	verifAssert("C15.add-keeps-foreign-taints", sameTaintMultiset(rest, server.Spec.Taints))
	verifAssert("C15.add-exactly-one-escalator-taint", len(added) == 1)
	if len(added) == 1 {
		want := apiv1.TaintEffectNoSchedule
		if effect != "" {
			want = effect
		}
		verifAssert("C15.add-effect", added[0].Effect == want)
		stamp, perr := strconv.ParseInt(added[0].Value, 10, 64)
		verifAssert("C15.add-value-is-now", verifAnd(perr == nil, verifAnd(stamp >= base, stamp <= base+2)))
	}
	if store.failPut {
		verifAssert("C15.put-failure-reported", err != nil)
	} else {
		verifAssert("C15.add-succeeds", err == nil)
		verifReach("C15.added")
	}
}

// VerifHarness_C15_delete: DeleteToBeRemovedTaint removes exactly the escalator taint.
// shape: [foreign taints]
func VerifHarness_C15_delete() {
	foreign := verifShape(0)
	escAt := verifChoice("escAt", foreign+2) - 1
	server := c15Node(foreign, escAt, "1500000000")
	store := &c15Store{latest: server}
	switch verifChoice("fault", 4) {
	case 1:
		store.failGet = true
	case 2:
		store.failPut = true
	case 3:
		store.nilGet = true
	}
	if escAt >= 0 && verifChoice("conflict", 2) == 1 && !store.failGet && !store.failPut && !store.nilGet {
		store.conflict = true
		store.dropFirst = verifChoice("concurrentRemoval", 2) == 1
	}
	stale := c15Node(foreign, 0, "1400000000")
	_, err := DeleteToBeRemovedTaint(stale, &c15Kube{s: store})
	if store.conflict {
		// whatever escalator does about the conflict (give up or retry), what the API server
		// holds afterwards still has every taint, label and annotation other writers put there
		final := store.latest
		var foreignNow []apiv1.Taint
		for _, t := range final.Spec.Taints {
			if t.Key != ToBeRemovedByAutoscalerKey {
				foreignNow = append(foreignNow, t)
			}
		}
		var want []apiv1.Taint
		for k, t := range server.Spec.Taints {
			if k != escAt && !(store.dropped && k == 0) {
				want = append(want, t)
			}
		}
		want = append(want, apiv1.Taint{Key: "node.kubernetes.io/unreachable", Effect: apiv1.TaintEffectNoExecute})
		verifAssert("C15.conflict-keeps-concurrent-taints", sameTaintMultiset(foreignNow, want))
		verifAssert("C15.conflict-keeps-concurrent-annotation", final.Annotations["heartbeat"] == "2")
		verifAssert("C15.conflict-reported-or-resolved", err != nil || store.applied > 0)
		if err == nil {
			_, still := GetToBeRemovedTaint(final)
			verifAssert("C15.success-means-the-taint-is-gone", !still)
		}
		if store.dropped {
			verifReach("C15.conflict-shifted-taint-positions")
		}
		verifReach("C15.conflict")
		return
	}
	if store.failGet || store.nilGet {
		verifAssert("C15.get-failure-reported", err != nil && len(store.puts) == 0)
		return
	}
	if escAt < 0 {
		verifAssert("C15.delete-noop-when-absent", len(store.puts) == 0 && err == nil)
		verifReach("C15.delete-absent")
		return
	}
	verifAssert("C15.one-write", len(store.puts) == 1)
	if len(store.puts) != 1 {
		return
	}
	put := store.puts[0]
	verifAssert("C15.delete-preserves-other-fields", otherFieldsEqual(put, server) && put.Spec.Unschedulable == server.Spec.Unschedulable)
	var want []apiv1.Taint
	for k, t := range server.Spec.Taints {
		if k != escAt {
			want = append(want, t)
		}
	}
	verifAssert("C15.delete-removes-exactly-the-escalator-taint", sameTaintMultiset(put.Spec.Taints, want))
	if store.failPut {
		verifAssert("C15.put-failure-reported", err != nil)
	} else {
		verifAssert("C15.delete-succeeds", err == nil)
		verifReach("C15.deleted")
	}
}
