//go:build verif

package aws

// Stateful simulated AWS (auto-scaling + EC2) for the harnesses: records the
// arguments of every call in a journal and can fail any call on demand.
// Ordinary Go; under the symbolic executor it is executed like any other code.

import (
	"errors"
	"github.com/aws/aws-sdk-go/aws/awserr"
	"strconv"
	"time"

	"github.com/atlassian/escalator/pkg/cloudprovider"
	awsapi "github.com/aws/aws-sdk-go/aws"
	"github.com/aws/aws-sdk-go/service/autoscaling"
	"github.com/aws/aws-sdk-go/service/autoscaling/autoscalingiface"
	"github.com/aws/aws-sdk-go/service/ec2"
	"github.com/aws/aws-sdk-go/service/ec2/ec2iface"
)

// VerifCall is one journalled mutating (or observed) API call.
type VerifCall struct {
	Kind     string // SetDesiredCapacity | Terminate | Attach | CreateFleet | TerminateInstances | CreateOrUpdateTags | NodeUpdate | NodeDelete | NodeGet
	Group    string
	Instance string
	Node     string
	N        int64 // desired capacity / fleet total / number of ids
	Prev     int64 // simulated ASG desired capacity at call time
	Min      int64 // fleet MinTargetCapacity
	IDs      []string
	Flag     bool // ShouldDecrementDesiredCapacity / fleet type instant / update adds taint
	OK       bool // call accepted
	Aux      string
	At       int64 // clock reading (Unix ns) when the cloud accepted the call; only with VerifJournal.Stamp
}

type VerifJournal struct {
	Calls []VerifCall
	// failure injection shared by all fakes
	FailBudget  int
	Failed      int
	Seq         int
	Stamp       bool // read the clock when a resize / attach is accepted
	TypedErrors bool // a failing cloud call returns a generic error, an AWS throttling error or an AWS ValidationError (symbolic)
}

// failure builds the error of a failing cloud call.
func (j *VerifJournal) failure(api string) error {
	if j != nil && j.TypedErrors {
		switch verifChoice("errkind_"+strconv.Itoa(j.Seq)+"_"+api, 3) {
		case 1:
			return awserr.New("Throttling", "Rate exceeded", nil)
		case 2:
			return awserr.New("ValidationError", "Instance Id not found - No managed instance found for instance ID", nil)
		}
	}
	return errors.New("injected " + api + " failure")
}

// Fail decides whether the next fake call fails (one symbolic Bool per call,
// at most FailBudget failures per journal).
func (j *VerifJournal) Fail(api string) bool {
	j.Seq++
	if j.Failed >= j.FailBudget {
		return false
	}
	if verifBool("fail_" + strconv.Itoa(j.Seq) + "_" + api) {
		j.Failed++
		return true
	}
	return false
}

type VerifInstance struct {
	ID    string
	AZ    string
	State string // lifecycle state reported by describe ("" = InService)
}

type VerifASG struct {
	Name      string
	Min       int64
	Max       int64
	Desired   int64
	Instances []VerifInstance
	VPC       string
	Tagged    bool
}

func (g *VerifASG) Has(id string) bool {
	for _, in := range g.Instances {
		if in.ID == id {
			return true
		}
	}
	return false
}

type VerifAutoScaling struct {
	autoscalingiface.AutoScalingAPI
	J      *VerifJournal
	Groups []*VerifASG
	// AttachFailAt: 1-based index of the AttachInstances call that fails (0 = none)
	AttachFailAt  int
	attachCalls   int
	AttachFailFor int // how many consecutive AttachInstances calls fail from AttachFailAt on (0 = one)
	// LaunchBase: launch time reported for instances (unix seconds)
	LaunchBase int64
	// DescribeFailOdd: every other describe call fails, starting with the next one (a refresh fails,
	// the describe inside the rebuild that follows works, the refresh of the rebuilt provider fails, ...)
	DescribeFailOdd bool
	describeCalls   int
	// KeepTerminating: a terminated instance stays listed by describe in state Terminating:Wait
	KeepTerminating bool
	// DescribeDown: every DescribeAutoScalingGroups call fails (throttled control plane); the
	// resize / attach / terminate calls keep working
	DescribeDown bool
	// termFailAt: 1-based index of the TerminateInstanceInAutoScalingGroup call that fails
	termFailAt int
	termCalls  int
}

func (s *VerifAutoScaling) Group(name string) *VerifASG {
	for _, g := range s.Groups {
		if g.Name == name {
			return g
		}
	}
	return nil
}

func (s *VerifAutoScaling) DescribeAutoScalingGroups(in *autoscaling.DescribeAutoScalingGroupsInput) (*autoscaling.DescribeAutoScalingGroupsOutput, error) {
	s.describeCalls++
	if s.DescribeDown || (s.DescribeFailOdd && s.describeCalls%2 == 1) || s.J.Fail("DescribeAutoScalingGroups") {
		return nil, s.J.failure("DescribeAutoScalingGroups")
	}
	out := &autoscaling.DescribeAutoScalingGroupsOutput{}
	// AWS promises no order: groups come back in reverse order of the request, and the first two
	// instances of a group swapped (so neither list is sorted by name / id)
	for q := len(in.AutoScalingGroupNames) - 1; q >= 0; q-- {
		name := in.AutoScalingGroupNames[q]
		g := s.Group(awsapi.StringValue(name))
		if g == nil {
			continue
		}
		ag := &autoscaling.Group{
			AutoScalingGroupName: awsapi.String(g.Name),
			MinSize:              awsapi.Int64(g.Min),
			MaxSize:              awsapi.Int64(g.Max),
			DesiredCapacity:      awsapi.Int64(g.Desired),
			VPCZoneIdentifier:    awsapi.String(g.VPC),
		}
		for k0 := range g.Instances {
			k := k0
			if len(g.Instances) >= 2 && k0 < 2 {
				k = 1 - k0
			}
			ag.Instances = append(ag.Instances, &autoscaling.Instance{
				InstanceId:       awsapi.String(g.Instances[k].ID),
				AvailabilityZone: awsapi.String(g.Instances[k].AZ),
				LifecycleState:   awsapi.String(lifecycleOr(g.Instances[k].State, "InService")),
			})
		}
		if g.Tagged {
			ag.Tags = append(ag.Tags, &autoscaling.TagDescription{Key: awsapi.String(tagKey), Value: awsapi.String(tagValue)})
		}
		out.AutoScalingGroups = append(out.AutoScalingGroups, ag)
	}
	return out, nil
}

func (s *VerifAutoScaling) SetDesiredCapacity(in *autoscaling.SetDesiredCapacityInput) (*autoscaling.SetDesiredCapacityOutput, error) {
	name := awsapi.StringValue(in.AutoScalingGroupName)
	n := awsapi.Int64Value(in.DesiredCapacity)
	c := VerifCall{Kind: "SetDesiredCapacity", Group: name, N: n}
	g := s.Group(name)
	if g != nil {
		c.Prev = g.Desired
	}
	if s.J.Fail("SetDesiredCapacity") {
		s.J.Calls = append(s.J.Calls, c)
		return nil, s.J.failure("SetDesiredCapacity")
	}
	if g == nil || n > g.Max || n < g.Min {
		s.J.Calls = append(s.J.Calls, c)
		return nil, errors.New("ValidationError: desired capacity outside min/max")
	}
	g.Desired = n
	c.OK = true
	if s.J.Stamp {
		c.At = verifClockNanos()
	}
	s.J.Calls = append(s.J.Calls, c)
	return &autoscaling.SetDesiredCapacityOutput{}, nil
}

func (s *VerifAutoScaling) TerminateInstanceInAutoScalingGroup(in *autoscaling.TerminateInstanceInAutoScalingGroupInput) (*autoscaling.TerminateInstanceInAutoScalingGroupOutput, error) {
	id := awsapi.StringValue(in.InstanceId)
	c := VerifCall{Kind: "Terminate", Instance: id, Flag: awsapi.BoolValue(in.ShouldDecrementDesiredCapacity)}
	var g *VerifASG
	for _, gg := range s.Groups {
		if gg.Has(id) {
			g = gg
		}
	}
	if g != nil {
		c.Group = g.Name
		c.Prev = g.Desired
	}
	s.termCalls++
	if s.termCalls == s.termFailAt || s.J.Fail("TerminateInstanceInAutoScalingGroup") {
		s.J.Calls = append(s.J.Calls, c)
		return nil, s.J.failure("TerminateInstanceInAutoScalingGroup")
	}
	if g == nil {
		s.J.Calls = append(s.J.Calls, c)
		return nil, errors.New("ValidationError: instance not found")
	}
	if c.Flag && g.Desired-1 < g.Min {
		s.J.Calls = append(s.J.Calls, c)
		return nil, errors.New("ValidationError: would go below minimum")
	}
	var rest []VerifInstance
	for _, in := range g.Instances {
		if in.ID != id {
			rest = append(rest, in)
		} else if s.KeepTerminating {
			// (a termination lifecycle hook holds the instance: it stays listed, no longer in service)
			in.State = "Terminating:Wait"
			rest = append(rest, in)
		}
	}
	g.Instances = rest
	if c.Flag {
		g.Desired--
	}
	c.OK = true
	s.J.Calls = append(s.J.Calls, c)
	return &autoscaling.TerminateInstanceInAutoScalingGroupOutput{
		Activity: &autoscaling.Activity{Description: awsapi.String("terminating " + id)},
	}, nil
}

func (s *VerifAutoScaling) AttachInstances(in *autoscaling.AttachInstancesInput) (*autoscaling.AttachInstancesOutput, error) {
	name := awsapi.StringValue(in.AutoScalingGroupName)
	s.attachCalls++
	c := VerifCall{Kind: "Attach", Group: name, N: int64(len(in.InstanceIds))}
	for _, p := range in.InstanceIds {
		c.IDs = append(c.IDs, awsapi.StringValue(p))
	}
	g := s.Group(name)
	if g != nil {
		c.Prev = g.Desired
	}
	if (s.AttachFailAt > 0 && s.attachCalls >= s.AttachFailAt && s.attachCalls < s.AttachFailAt+maxInt(s.AttachFailFor, 1)) || s.J.Fail("AttachInstances") {
		s.J.Calls = append(s.J.Calls, c)
		return nil, s.J.failure("AttachInstances")
	}
	if g == nil || len(c.IDs) > 20 || len(c.IDs) == 0 || g.Desired+int64(len(c.IDs)) > g.Max {
		s.J.Calls = append(s.J.Calls, c)
		return nil, errors.New("ValidationError: AttachInstances rejected")
	}
	for _, id := range c.IDs {
		g.Instances = append(g.Instances, VerifInstance{ID: id, AZ: "az"})
	}
	g.Desired += int64(len(c.IDs))
	c.OK = true
	if s.J.Stamp {
		c.At = verifClockNanos()
	}
	s.J.Calls = append(s.J.Calls, c)
	return &autoscaling.AttachInstancesOutput{}, nil
}

func (s *VerifAutoScaling) CreateOrUpdateTags(in *autoscaling.CreateOrUpdateTagsInput) (*autoscaling.CreateOrUpdateTagsOutput, error) {
	c := VerifCall{Kind: "CreateOrUpdateTags"}
	if len(in.Tags) > 0 {
		c.Group = awsapi.StringValue(in.Tags[0].ResourceId)
	}
	if s.J.Fail("CreateOrUpdateTags") {
		s.J.Calls = append(s.J.Calls, c)
		return nil, s.J.failure("CreateOrUpdateTags")
	}
	c.OK = true
	s.J.Calls = append(s.J.Calls, c)
	return &autoscaling.CreateOrUpdateTagsOutput{}, nil
}

// FailEveryOtherDescribe arms DescribeFailOdd so that the next describe call is a failing one.
func (s *VerifAutoScaling) FailEveryOtherDescribe() {
	s.DescribeFailOdd = true
	s.describeCalls = 0
}

// TermFailAt makes the k-th TerminateInstanceInAutoScalingGroup call from now on fail.
func (s *VerifAutoScaling) TermFailAt(k int) { s.termFailAt = s.termCalls + k }

// ---- EC2

type VerifEC2 struct {
	ec2iface.EC2API
	fleetCalls int
	J          *VerifJournal
	AS         *VerifAutoScaling
	// FleetSize: number of instance ids CreateFleet returns (-1 = as many as requested)
	FleetSize int
	// FleetSets: the ids are split over this many FleetInstance entries (>=1)
	FleetSets int
	// FleetErrors: number of entries in the Errors list of the response
	FleetErrors int
	// ReadyAfter: DescribeInstanceStatusPages reports all running from this
	// 1-based poll on (0 = never ready)
	ReadyAfter int
	// StatusPages: number of pages per poll (>=1)
	StatusPages int
	polls       int
	// TerminateFailAt: 1-based index of the TerminateInstances call that fails
	TerminateFailAt int
	terminateCalls  int
	// LaunchAgo: seconds before "now" the instances were launched
	LaunchUnix int64
	// DescribeShape: 0 = normal (1 reservation, 1 instance), 1 = no reservation, 2 = two instances
	DescribeShape int
	Fleet         []string // ids handed out by the last CreateFleet
}

func (e *VerifEC2) DescribeInstances(in *ec2.DescribeInstancesInput) (*ec2.DescribeInstancesOutput, error) {
	if e.J.Fail("DescribeInstances") {
		return nil, e.J.failure("DescribeInstances")
	}
	t := time.Unix(e.LaunchUnix, 0)
	id := ""
	if len(in.InstanceIds) > 0 {
		id = awsapi.StringValue(in.InstanceIds[0])
	}
	inst := &ec2.Instance{InstanceId: awsapi.String(id), LaunchTime: &t}
	switch e.DescribeShape {
	case 1:
		return &ec2.DescribeInstancesOutput{}, nil
	case 2:
		return &ec2.DescribeInstancesOutput{Reservations: []*ec2.Reservation{{Instances: []*ec2.Instance{inst, inst}}}}, nil
	}
	return &ec2.DescribeInstancesOutput{Reservations: []*ec2.Reservation{{Instances: []*ec2.Instance{inst}}}}, nil
}

func (e *VerifEC2) CreateFleet(in *ec2.CreateFleetInput) (*ec2.CreateFleetOutput, error) {
	c := VerifCall{Kind: "CreateFleet", Flag: awsapi.StringValue(in.Type) == "instant"}
	if in.TargetCapacitySpecification != nil {
		c.N = awsapi.Int64Value(in.TargetCapacitySpecification.TotalTargetCapacity)
		c.Aux = awsapi.StringValue(in.TargetCapacitySpecification.DefaultTargetCapacityType)
	}
	c.Min = -1
	if in.OnDemandOptions != nil {
		c.Min = awsapi.Int64Value(in.OnDemandOptions.MinTargetCapacity)
		c.Aux += "/on-demand-options"
	}
	if in.SpotOptions != nil {
		c.Min = awsapi.Int64Value(in.SpotOptions.MinTargetCapacity)
		c.Aux += "/spot-options"
	}
	for _, cfg := range in.LaunchTemplateConfigs {
		c.Prev += int64(len(cfg.Overrides))
	}
	if e.J.Fail("CreateFleet") {
		e.J.Calls = append(e.J.Calls, c)
		return nil, e.J.failure("CreateFleet")
	}
	n := e.FleetSize
	if n < 0 {
		n = int(c.N)
	}
	out := &ec2.CreateFleetOutput{}
	for k := 0; k < e.FleetErrors; k++ {
		out.Errors = append(out.Errors, &ec2.CreateFleetError{ErrorMessage: awsapi.String("fleet error")})
	}
	sets := e.FleetSets
	if sets < 1 {
		sets = 1
	}
	e.Fleet = nil
	per := (n + sets - 1) / sets
	e.fleetCalls++
	for k := 0; k < n; k++ {
		id := "i-f" + strconv.Itoa(k)
		if e.fleetCalls > 1 {
			id = "i-f" + strconv.Itoa(e.fleetCalls) + "x" + strconv.Itoa(k)
		}
		e.Fleet = append(e.Fleet, id)
		c.IDs = append(c.IDs, id)
		if k%maxInt(per, 1) == 0 {
			out.Instances = append(out.Instances, &ec2.CreateFleetInstance{})
		}
		last := out.Instances[len(out.Instances)-1]
		last.InstanceIds = append(last.InstanceIds, awsapi.String(id))
	}
	c.OK = true
	e.J.Calls = append(e.J.Calls, c)
	return out, nil
}

func lifecycleOr(s, def string) string {
	if s == "" {
		return def
	}
	return s
}

func maxInt(a, b int) int {
	if a > b {
		return a
	}
	return b
}

func (e *VerifEC2) DescribeInstanceStatusPages(in *ec2.DescribeInstanceStatusInput, fn func(*ec2.DescribeInstanceStatusOutput, bool) bool) error {
	e.polls++
	if e.J.Fail("DescribeInstanceStatusPages") {
		return e.J.failure("DescribeInstanceStatusPages")
	}
	ready := e.ReadyAfter > 0 && e.polls >= e.ReadyAfter
	pages := e.StatusPages
	if pages < 1 {
		pages = 1
	}
	ids := in.InstanceIds
	per := (len(ids) + pages - 1) / pages
	for p := 0; p < pages; p++ {
		out := &ec2.DescribeInstanceStatusOutput{}
		for k := p * per; k < (p+1)*per && k < len(ids); k++ {
			state := "pending"
			if ready || k > 0 {
				// until ready, the first instance stays pending
				state = "running"
			}
			out.InstanceStatuses = append(out.InstanceStatuses, &ec2.InstanceStatus{
				InstanceId:    ids[k],
				InstanceState: &ec2.InstanceState{Name: awsapi.String(state)},
			})
		}
		if !fn(out, p == pages-1) {
			return nil
		}
	}
	return nil
}

func (e *VerifEC2) TerminateInstances(in *ec2.TerminateInstancesInput) (*ec2.TerminateInstancesOutput, error) {
	e.terminateCalls++
	c := VerifCall{Kind: "TerminateInstances", N: int64(len(in.InstanceIds))}
	for _, p := range in.InstanceIds {
		c.IDs = append(c.IDs, awsapi.StringValue(p))
	}
	if e.terminateCalls == e.TerminateFailAt || e.J.Fail("TerminateInstances") {
		e.J.Calls = append(e.J.Calls, c)
		return nil, e.J.failure("TerminateInstances")
	}
	if len(c.IDs) > 1000 {
		e.J.Calls = append(e.J.Calls, c)
		return nil, errors.New("InvalidParameterValue: more than 1000 instance ids")
	}
	c.OK = true
	e.J.Calls = append(e.J.Calls, c)
	return &ec2.TerminateInstancesOutput{}, nil
}

// VerifNewCloudProvider builds the real AWS cloud provider over injected
// service clients, the way Builder.Build does after creating the session.
func VerifNewCloudProvider(service autoscalingiface.AutoScalingAPI, ec2Service ec2iface.EC2API, configs ...cloudprovider.NodeGroupConfig) (*CloudProvider, error) {
	cloud := &CloudProvider{
		service:    service,
		ec2Service: ec2Service,
		nodeGroups: make(map[string]*NodeGroup, len(configs)),
	}
	if err := cloud.RegisterNodeGroups(configs...); err != nil {
		return nil, err
	}
	return cloud, nil
}

// VerifBuilder is a cloudprovider.Builder over the fakes (RunOnce rebuilds the
// provider through its builder when Refresh fails).
type VerifBuilder struct {
	Service autoscalingiface.AutoScalingAPI
	EC2     ec2iface.EC2API
	Configs []cloudprovider.NodeGroupConfig
	J       *VerifJournal
	Builds  int
	Failed  int
}

func (b *VerifBuilder) Build() (cloudprovider.CloudProvider, error) {
	b.Builds++
	if b.J != nil && b.J.Fail("Build") {
		b.Failed++
		return nil, b.J.failure("Build")
	}
	cloud, err := VerifNewCloudProvider(b.Service, b.EC2, b.Configs...)
	if err != nil {
		b.Failed++
		return nil, err
	}
	return cloud, nil
}
