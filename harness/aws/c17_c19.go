//go:build verif

package aws

import (
	"strconv"
	"time"

	"github.com/atlassian/escalator/pkg/cloudprovider"
	v1 "k8s.io/api/core/v1"
)

func init() {
	verifHarnesses["VerifHarness_C17_setdesired"] = VerifHarness_C17_setdesired
	verifHarnesses["VerifHarness_C17_fleet"] = VerifHarness_C17_fleet
	verifHarnesses["VerifHarness_C17_after_delete"] = VerifHarness_C17_after_delete
	verifHarnesses["VerifHarness_C17_sequence"] = VerifHarness_C17_sequence
	verifHarnesses["VerifHarness_C18"] = VerifHarness_C18
	verifHarnesses["VerifHarness_C19"] = VerifHarness_C19
	verifHarnesses["VerifHarness_C19_history"] = VerifHarness_C19_history
	verifHarnesses["VerifHarness_C18_history"] = VerifHarness_C18_history
}

type awsWorld struct {
	J   *VerifJournal
	AS  *VerifAutoScaling
	EC2 *VerifEC2
	asg *VerifASG
	ng  *NodeGroup
	cp  *CloudProvider
}

func newAWSWorld(min, max, desired int64, instances int, cfg cloudprovider.AWSNodeGroupConfig) *awsWorld {
	j := &VerifJournal{}
	as := &VerifAutoScaling{J: j}
	ec2 := &VerifEC2{J: j, AS: as, FleetSize: -1, ReadyAfter: 1, LaunchUnix: 1600000000}
	asg := &VerifASG{Name: "asg0", Min: min, Max: max, Desired: desired, VPC: "subnet-a,subnet-b", Tagged: true}
	for k := 0; k < instances; k++ {
		asg.Instances = append(asg.Instances, VerifInstance{ID: "i-" + strconv.Itoa(k), AZ: "az"})
	}
	as.Groups = []*VerifASG{asg}
	cloud, err := VerifNewCloudProvider(as, ec2, cloudprovider.NodeGroupConfig{Name: "g0", GroupID: "asg0", AWSConfig: cfg})
	if err != nil {
		panic(err)
	}
	ng, ok := cloud.GetNodeGroup("asg0")
	if !ok {
		panic("node group not registered")
	}
	return &awsWorld{J: j, AS: as, EC2: ec2, asg: asg, ng: ng.(*NodeGroup), cp: cloud}
}

func (w *awsWorld) count(kind string) int {
	c := 0
	for _, e := range w.J.Calls {
		if e.Kind == kind {
			c++
		}
	}
	return c
}

// VerifHarness_C17_setdesired: plain ASG scale-up asks for exactly current+d.
func VerifHarness_C17_setdesired() {
	min := verifInt("min", 0, 5)
	max := verifInt("max", 0, 12)
	desired := verifInt("desired", 0, 12)
	d := verifInt("d", -3, 12)
	verifAssume(verifAnd(min <= desired, desired <= max))
	cfgSD := cloudprovider.AWSNodeGroupConfig{}
	if verifChoice("resourceTagging", 2) == 1 {
		cfgSD.ResourceTagging = true // (the registration-time tagging of the group is start-up, before the mark)
	}
	w := newAWSWorld(min, max, desired, 0, cfgSD)
	if cfgSD.ResourceTagging && verifChoice("tagLost", 2) == 1 {
		w.asg.Tagged = false // the tag was removed from the cloud group afterwards
		_ = w.cp.Refresh()
		ng, _ := w.cp.GetNodeGroup("asg0")
		w.ng = ng.(*NodeGroup)
	}
	mark := len(w.J.Calls)
	err := w.ng.IncreaseSize(d)
	legal := verifAnd(d > 0, desired+d <= max)
	n := 0
	for _, e := range w.J.Calls[mark:] {
		switch e.Kind {
		case "SetDesiredCapacity":
			n++
			verifAssert("C17.sets-exactly-current-plus-d", e.N == desired+d)
			verifAssert("C17.never-lowers", e.N > desired)
			verifAssert("C17.only-when-legal", legal)
		default:
			verifAssert("C17.no-other-write", !isAWSWrite(e.Kind))
		}
	}
	verifAssert("C17.one-call-when-legal", verifImplies(legal, n == 1))
	verifAssert("C17.error-iff-rejected", verifImplies(verifNot(legal), err != nil))
	verifAssert("C17.no-error-when-accepted", verifImplies(legal, err == nil))
	verifReachIf("C17.legal", legal)
	verifReachIf("C17.rejected-nonpositive", d <= 0)
	verifReachIf("C17.rejected-above-max", verifAnd(d > 0, desired+d > max))
}

func isAWSWrite(kind string) bool {
	switch kind {
	case "SetDesiredCapacity", "Terminate", "Attach", "CreateFleet", "TerminateInstances", "CreateOrUpdateTags":
		return true
	}
	return false
}

func fleetCfg() cloudprovider.AWSNodeGroupConfig {
	cfg := cloudprovider.AWSNodeGroupConfig{
		LaunchTemplateID:          "lt-1",
		LaunchTemplateVersion:     "3",
		FleetInstanceReadyTimeout: 2500 * time.Millisecond,
	}
	cfg.Lifecycle = []string{"", LifecycleOnDemand, LifecycleSpot}[verifChoice("lifecycle", 3)]
	switch verifChoice("overrides", 3) {
	case 1:
		cfg.InstanceTypeOverrides = []string{"m5.large"}
	case 2:
		cfg.InstanceTypeOverrides = []string{"m5.large", "c5.large"}
	}
	return cfg
}

// attachAlgebra checks the attach / terminate set algebra against the ids the
// fleet handed out. Returns (#attached, #submitted for termination).
func (w *awsWorld) attachAlgebra(prefix string, mark int) (int, int) {
	acquired := w.EC2.Fleet
	attached := map[string]int{}
	terminated := map[string]int{}
	for _, e := range w.J.Calls[mark:] {
		switch e.Kind {
		case "Attach":
			verifAssert(prefix+".attach-batch-at-most-20", len(e.IDs) <= 20 && len(e.IDs) >= 1)
			verifAssert(prefix+".attach-names-the-asg", e.Group == "asg0")
			if e.OK {
				for _, id := range e.IDs {
					attached[id]++
				}
			}
		case "TerminateInstances":
			verifAssert(prefix+".terminate-batch-at-most-1000", len(e.IDs) <= 1000)
			for _, id := range e.IDs {
				terminated[id]++
			}
		}
	}
	okOnce := true
	for _, id := range acquired {
		a, t := attached[id], terminated[id]
		if a > 1 || (a == 1 && t > 0) || (a == 0 && t == 0) {
			okOnce = false
		}
	}
	verifAssert(prefix+".each-instance-attached-xor-terminated", okOnce)
	verifAssert(prefix+".only-acquired-instances-touched", len(attached)+len(terminated) <= len(acquired) && subset(attached, acquired) && subset(terminated, acquired))
	return len(attached), len(terminated)
}

func subset(m map[string]int, ids []string) bool {
	set := map[string]bool{}
	for _, id := range ids {
		set[id] = true
	}
	for id := range m {
		if !set[id] {
			return false
		}
	}
	return true
}

// VerifHarness_C17_fleet: fleet scale-up requests exactly d, all-or-nothing,
// and attaches each acquired instance exactly once in batches of <= 20.
// shape: [d]
func VerifHarness_C17_fleet() {
	d := int64(verifShape(0))
	desired := verifInt("desired", 0, 5)
	headroom := verifInt("headroom", -1, 3) // max = desired + d + headroom
	max := desired + d + headroom
	verifAssume(max >= desired)
	w := newAWSWorld(0, max, desired, 0, fleetCfg())
	w.EC2.FleetSets = 1 + verifChoice("fleetSets", 2)
	w.EC2.FleetErrors = verifChoice("fleetErrors", 2)
	mark := len(w.J.Calls)
	err := w.ng.IncreaseSize(d)
	legal := headroom >= 0
	fleets := 0
	for _, e := range w.J.Calls[mark:] {
		if e.Kind == "CreateFleet" {
			fleets++
			verifAssert("C17.fleet-total-is-d", e.N == d)
			verifAssert("C17.fleet-min-target-is-d", e.Min == d)
			verifAssert("C17.fleet-type-instant", e.Flag)
			verifAssert("C17.fleet-only-when-legal", legal)
			verifAssert("C17.fleet-has-overrides", e.Prev >= 2)
		}
		if e.Kind == "SetDesiredCapacity" {
			verifAssert("C17.fleet-mode-no-setdesired", false)
		}
	}
	verifAssert("C17.fleet-one-request-when-legal", verifImplies(legal, fleets == 1))
	verifAssert("C17.fleet-no-write-when-rejected", verifImplies(verifNot(legal), w.count("CreateFleet")+w.count("Attach") == 0))
	verifAssert("C17.fleet-error-iff-rejected", verifImplies(verifNot(legal), err != nil))
	if fleets == 1 {
		att, term := w.attachAlgebra("C17", mark)
		verifAssert("C17.fleet-all-attached", att == int(d) && term == 0 && err == nil)
		verifAssert("C17.fleet-desired-grew-by-d", w.asg.Desired == desired+d)
		verifReach("C17.fleet-attached")
	}
	verifReachIf("C17.fleet-rejected", verifNot(legal))
}

// VerifHarness_C18: whichever step of a fleet scale-up fails, every acquired
// instance is attached or submitted for termination, never both or neither.
// The failing attach call k is symbolic (every k), as is the failure kind.
// shape: [m = instances acquired]
func VerifHarness_C18() {
	m := verifShape(0)
	batches := (m + batchSize - 1) / batchSize
	cfg := cloudprovider.AWSNodeGroupConfig{LaunchTemplateID: "lt-1", LaunchTemplateVersion: "1", FleetInstanceReadyTimeout: 1500 * time.Millisecond}
	w := newAWSWorld(0, int64(m)+10, 2, 0, cfg)
	failure := verifChoice("failure", 3) // 0 never ready, 1 k-th attach fails, 2 attach and a terminate call fail
	switch failure {
	case 0:
		w.EC2.ReadyAfter = 0
	case 1:
		w.AS.AttachFailAt = int(verifInt("k", 1, int64(batches)))
	case 2:
		w.AS.AttachFailAt = int(verifInt("k", 1, int64(batches)))
		w.EC2.TerminateFailAt = 1
	}
	mark := len(w.J.Calls)
	err := w.ng.IncreaseSize(int64(m))
	verifAssert("C18.failure-reported", err != nil)
	att, term := w.attachAlgebra("C18", mark)
	verifAssert("C18.nothing-leaked", att+term == m)
	if failure == 0 {
		verifAssert("C18.timeout-terminates-all", term == m && att == 0)
		verifReach("C18.timeout")
	} else {
		verifReach("C18.attach-failed")
		if att > 0 {
			verifReach("C18.partially-attached")
		}
	}
	if m > 1000 {
		verifReach("C18.more-than-1000")
	}
}

// VerifHarness_C19: DeleteNodes terminates exactly the given nodes' instances,
// respects the minimum and stops at a foreign node.
// shape: [instances in the ASG, nodes passed]
func VerifHarness_C19() {
	I, K := verifShape(0), verifShape(1)
	min := verifInt("min", 0, int64(I))
	desired := verifInt("desired", 0, int64(I)+1)
	verifAssume(min <= desired)
	w := newAWSWorld(min, int64(I)+3, desired, I, cloudprovider.AWSNodeGroupConfig{})
	w.J.TypedErrors = true
	failAt := verifChoice("terminateFailAt", K+1) // 0 = none
	var nodes []*v1.Node
	var want []string
	foreignAt := -1
	for k := 0; k < K; k++ {
		ks := strconv.Itoa(k)
		which := verifChoice("node"+ks, I+1) // I = foreign
		n := &v1.Node{}
		n.Name = "n" + ks
		if which == I {
			n.Spec.ProviderID = "aws:///az/i-foreign" + ks
			if foreignAt < 0 {
				foreignAt = k
			}
		} else {
			n.Spec.ProviderID = "aws:///az/i-" + strconv.Itoa(which)
		}
		for _, prev := range want {
			if which != I && prev == "i-"+strconv.Itoa(which) {
				verifAssume(false) // one instance backs one node
			}
		}
		nodes = append(nodes, n)
		want = append(want, "i-"+strconv.Itoa(which))
	}
	// injected failure of the failAt-th terminate call
	if failAt > 0 {
		w.J.FailBudget = 0
	}
	terms := 0
	mark := len(w.J.Calls)
	w.AS.termFailAt = failAt
	err := w.ng.DeleteNodes(nodes...)
	allowed := verifAnd(desired > min, desired-int64(K) >= min)
	for _, e := range w.J.Calls[mark:] {
		switch e.Kind {
		case "Terminate":
			verifAssert("C19.only-when-minimum-respected", allowed)
			verifAssert("C19.with-decrement", e.Flag)
			if terms < K {
				verifAssert("C19.terminates-the-given-nodes-in-order", e.Instance == want[terms])
				verifAssert("C19.stops-at-foreign-node", foreignAt < 0 || terms < foreignAt)
				verifAssert("C19.stops-after-failure", failAt == 0 || terms < failAt)
			}
			terms++
		default:
			verifAssert("C19.no-other-write", !isAWSWrite(e.Kind))
		}
	}
	verifAssert("C19.at-most-the-batch", terms <= K)
	verifAssert("C19.never-below-minimum", verifImplies(terms > 0, int64(terms) <= desired-min))
	verifAssert("C19.refuses-whole-request", verifImplies(verifNot(allowed), verifAnd(terms == 0, err != nil)))
	if foreignAt >= 0 && K > 0 {
		_, isNotInGroup := err.(*cloudprovider.NodeNotInNodeGroup)
		reached := failAt == 0 || failAt > foreignAt
		verifAssert("C19.foreign-node-error", verifImplies(verifAnd(allowed, reached), isNotInGroup))
		verifReachIf("C19.foreign", verifAnd(allowed, reached))
	}
	clean := foreignAt < 0 && failAt == 0
	if clean {
		verifAssert("C19.complete-batch", verifImplies(allowed, verifAnd(terms == K, err == nil)))
		verifReachIf("C19.complete", verifAnd(allowed, K > 0))
	}
	if failAt > 0 && (foreignAt < 0 || foreignAt >= failAt) {
		verifAssert("C19.failure-reported", verifImplies(allowed, err != nil))
		verifReachIf("C19.failed-midway", allowed)
	}
	verifReachIf("C19.refused", verifNot(allowed))
}

// VerifHarness_C17_after_delete: a scale-up that follows node removals in the
// same run (no Refresh in between) still sets exactly current + d, where
// current is the ASG's desired capacity at call time.
// shape: [instances, nodes removed]
func VerifHarness_C17_after_delete() {
	I, K := verifShape(0), verifShape(1)
	w := newAWSWorld(0, int64(I)+6, int64(I), I, cloudprovider.AWSNodeGroupConfig{})
	var nodes []*v1.Node
	for k := 0; k < K; k++ {
		n := &v1.Node{}
		n.Name = "n" + strconv.Itoa(k)
		n.Spec.ProviderID = "aws:///az/i-" + strconv.Itoa(k)
		if k > 0 && verifChoice("node"+strconv.Itoa(k)+".foreign", 2) == 1 {
			n.Spec.ProviderID = "aws:///az/i-foreign"
		}
		nodes = append(nodes, n)
	}
	w.AS.termFailAt = verifChoice("terminateFailAt", K+1)
	_ = w.ng.DeleteNodes(nodes...)
	d := verifInt("d", 1, 4)
	mark := len(w.J.Calls)
	err := w.ng.IncreaseSize(d)
	n := 0
	for _, e := range w.J.Calls[mark:] {
		if e.Kind == "SetDesiredCapacity" {
			n++
			verifAssert("C17.after-delete-sets-current-plus-d", e.N == e.Prev+d)
			if e.Prev < int64(I) {
				verifReach("C17.scale-up-after-removal")
			}
		}
	}
	verifAssert("C17.after-delete-one-call", n == 1 && err == nil)
}

// VerifHarness_C17_sequence: a scale-up that AWS (or the provider's own bounds
// check) rejected leaves no trace: a following scale-up on the same group sets
// exactly (the ASG's desired capacity at call time) + d and honours the maximum.
func VerifHarness_C17_sequence() {
	desired := verifInt("desired", 0, 4)
	max := verifInt("max", 1, 12)
	verifAssume(desired <= max)
	w := newAWSWorld(0, max, desired, 0, cloudprovider.AWSNodeGroupConfig{})
	d1 := verifInt("d1", 1, 4)
	d2 := verifInt("d2", 1, 4)
	w.J.FailBudget = 1 // the first SetDesiredCapacity may fail (throttling)
	err1 := w.ng.IncreaseSize(d1)
	if err1 == nil {
		// after an accepted request escalator does not scale the group again before the next
		// Refresh (one scale action per scan, then the cool-down lock): not a history it produces
		verifReach("C17.first-accepted")
		return
	}
	w.J.FailBudget = w.J.Failed
	real := w.asg.Desired
	mark := len(w.J.Calls)
	err2 := w.ng.IncreaseSize(d2)
	n := 0
	for _, e := range w.J.Calls[mark:] {
		if e.Kind == "SetDesiredCapacity" {
			n++
			verifAssert("C17.sequence-sets-current-plus-d", e.N == real+d2)
		}
	}
	legal := real+d2 <= max
	verifAssert("C17.sequence-one-call-iff-legal", verifAnd(verifImplies(legal, n == 1), verifImplies(verifNot(legal), n == 0)))
	verifAssert("C17.sequence-error-iff-rejected", verifImplies(verifNot(legal), err2 != nil))
	if err1 != nil {
		verifReachIf("C17.second-scale-up-after-rejected-first", legal)
	}
}

// awsNode builds the Node object backed by instance id.
func awsNode(name, id string) *v1.Node {
	n := &v1.Node{}
	n.Name = name
	n.Spec.ProviderID = "aws:///az/" + id
	return n
}

// VerifHarness_C19_history: the same removal contract after the node group object has a past.
// mode 0: an earlier scan looked nodes up and removed one; then instances leave and join the
//
//	cloud group one for one (same size), the provider refreshes, and a batch is removed:
//	membership is that of the current scan.
//
// mode 1: an earlier batch of the same run failed midway (some instances terminated, the cloud
//
//	already decremented); the next batch is judged against what the cloud holds now.
//
// mode 2: an earlier scan terminated the first instance, which a lifecycle hook keeps listed in
//
//	state Terminating:Wait; after a refresh another batch is removed.
//
// shape: [instances, nodes passed, mode]
func VerifHarness_C19_history() {
	I, K, mode := verifShape(0), verifShape(1), verifShape(2)
	min := verifInt("min", 0, int64(I))
	w := newAWSWorld(min, int64(I)+3, int64(I), I, cloudprovider.AWSNodeGroupConfig{})
	ids := make([]string, I) // current members
	for k := range ids {
		ids[k] = "i-" + strconv.Itoa(k)
	}
	var departed []string
	switch mode {
	case 0:
		_ = w.ng.Belongs(awsNode("probe", ids[0]))
		_ = w.ng.DeleteNodes(awsNode("old", ids[I-1])) // may be refused by the minimum; either way the object has been used
		// between scans: every instance the harness picks is replaced one for one
		for k := 0; k < I; k++ {
			if verifChoice("replaced"+strconv.Itoa(k), 2) == 1 {
				departed = append(departed, ids[k])
				ids[k] = "i-r" + strconv.Itoa(k)
			}
		}
		w.asg.Instances = nil
		for _, id := range ids {
			w.asg.Instances = append(w.asg.Instances, VerifInstance{ID: id, AZ: "az"})
		}
		w.asg.Desired = int64(I)
		verifAssert("C19.harness-refresh", w.cp.Refresh() == nil)
		ng, _ := w.cp.GetNodeGroup("asg0")
		w.ng = ng.(*NodeGroup)
		if len(departed) > 0 {
			verifReach("C19.membership-changed-at-equal-size")
		}
	case 2:
		// an earlier scan removed the first instance; a termination hook keeps it listed as Terminating:Wait
		w.AS.KeepTerminating = true
		w.asg.Desired = int64(I)
		if err0 := w.ng.DeleteNodes(awsNode("old", ids[0])); err0 == nil {
			verifReach("C19.terminating-instance-still-listed")
		}
		verifAssert("C19.harness-refresh", w.cp.Refresh() == nil)
		ng, _ := w.cp.GetNodeGroup("asg0")
		w.ng = ng.(*NodeGroup)
	case 1:
		// an earlier batch of two whose second termination is rejected
		w.asg.Desired = int64(I) + 2
		w.asg.Instances = append(w.asg.Instances, VerifInstance{ID: "i-e0", AZ: "az"}, VerifInstance{ID: "i-e1", AZ: "az"})
		verifAssert("C19.harness-refresh", w.cp.Refresh() == nil)
		ng, _ := w.cp.GetNodeGroup("asg0")
		w.ng = ng.(*NodeGroup)
		w.AS.termFailAt = w.AS.termCalls + 2
		err0 := w.ng.DeleteNodes(awsNode("e0", "i-e0"), awsNode("e1", "i-e1"))
		w.AS.termFailAt = 0
		if err0 != nil && w.asg.Desired == int64(I)+1 {
			verifReach("C19.earlier-batch-failed-midway")
		}
		// (the controller's batches of one scan are disjoint: the instances of the earlier batch are not passed again)
	}
	// the batch under test: K distinct nodes, each a current member or one that is not (any more)
	desired := w.asg.Desired
	var nodes []*v1.Node
	var want []string
	foreignAt := -1
	for k := 0; k < K; k++ {
		ks := strconv.Itoa(k)
		which := verifChoice("node"+ks, I+1) // I = not a member
		if mode == 2 && which == 0 {
			verifAssume(false) // the instance already being terminated is not asked for again
		}
		id := "i-foreign" + ks
		if which < I {
			id = ids[which]
		} else {
			if len(departed) > 0 {
				id = departed[0]
			}
			if foreignAt < 0 {
				foreignAt = k
			}
		}
		for _, prev := range want {
			if prev == id {
				verifAssume(false) // one instance backs one node
			}
		}
		nodes = append(nodes, awsNode("n"+ks, id))
		want = append(want, id)
	}
	mark := len(w.J.Calls)
	err := w.ng.DeleteNodes(nodes...)
	allowed := verifAnd(desired > min, desired-int64(K) >= min)
	terms := 0
	for _, e := range w.J.Calls[mark:] {
		switch e.Kind {
		case "Terminate":
			verifAssert("C19.only-when-minimum-respected", allowed)
			verifAssert("C19.with-decrement", e.Flag)
			if terms < K {
				verifAssert("C19.terminates-the-given-nodes-in-order", e.Instance == want[terms])
				verifAssert("C19.stops-at-foreign-node", foreignAt < 0 || terms < foreignAt)
			}
			terms++
		default:
			verifAssert("C19.no-other-write", !isAWSWrite(e.Kind))
		}
	}
	verifAssert("C19.at-most-the-batch", terms <= K)
	verifAssert("C19.never-below-minimum", verifImplies(terms > 0, int64(terms) <= desired-min))
	verifAssert("C19.refuses-whole-request", verifImplies(verifNot(allowed), verifAnd(terms == 0, err != nil)))
	if foreignAt >= 0 {
		_, isNotInGroup := err.(*cloudprovider.NodeNotInNodeGroup)
		verifAssert("C19.foreign-node-error", verifImplies(allowed, isNotInGroup))
		verifReachIf("C19.foreign", allowed)
	} else {
		verifAssert("C19.complete-batch", verifImplies(allowed, verifAnd(terms == K, err == nil)))
		verifReachIf("C19.complete", verifAnd(allowed, K > 0))
	}
	verifReachIf("C19.refused", verifNot(allowed))
}

// VerifHarness_C18_history: the no-leak contract along a history of fleet scale-ups of one node
// group object, and for a fleet request the cloud fills only in part.
// Each attempt fails in a way the harness picks (never ready / k-th attach call fails); escalator
// gives up (log.Fatal) after its documented number of consecutive failures -- also then every
// acquired instance must have been attached or handed back first.
// shape: [instances asked per attempt, attempts, partial fill or over-delivery (0/1), ASG maximum leaves exactly the asked headroom (0/1)]
func VerifHarness_C18_history() {
	m, A, partial := verifShape(0), verifShape(1), verifShape(2)
	batches := (m + batchSize - 1) / batchSize
	cfg := cloudprovider.AWSNodeGroupConfig{LaunchTemplateID: "lt-1", LaunchTemplateVersion: "1", FleetInstanceReadyTimeout: 1500 * time.Millisecond}
	maxSize := int64(m*A) + 10
	if verifShape(3) == 1 {
		maxSize = 2 + int64(m) // no headroom beyond what is asked: a fleet that over-delivers cannot be attached in full
	}
	w := newAWSWorld(0, maxSize, 2, 0, cfg)
	w.J.TypedErrors = true // a failing call may be a plain error, AWS throttling or an AWS ValidationError
	exited := false
	consecutive := 0 // failed scale-ups since the last one that went through
	for a := 1; a <= A && !exited; a++ {
		as := "a" + strconv.Itoa(a) + "."
		delivered := m
		if partial == 1 {
			// the cloud hands over fewer instances than asked for, together with an error entry
			delivered = int(verifInt(as+"delivered", 1, int64(m)+2)) // ... or a few more
			w.EC2.FleetSize = delivered
			if delivered < m {
				w.EC2.FleetErrors = 1
			} else {
				w.EC2.FleetErrors = 0
			}
		}
		w.EC2.FleetSets = 1 + verifChoice(as+"fleetEntries", 2) // the fleet answer lists its instances in one or two entries (same instance type)
		failure := verifChoice(as+"failure", 3)                 // 0 never ready, 1 k-th attach fails, 2 nothing fails
		w.EC2.ReadyAfter, w.AS.AttachFailAt = 1, 0
		w.EC2.polls = 0
		switch failure {
		case 0:
			w.EC2.ReadyAfter = 0
		case 1:
			w.AS.AttachFailAt = w.AS.attachCalls + int(verifInt(as+"k", 1, int64(batches)))
			w.AS.AttachFailFor = []int{1, 5}[verifChoice(as+"persistent", 2)] // a one-off failure, or one that outlasts any retry
		}
		mark := len(w.J.Calls)
		var err error
		fatal := verifCatchFatal(func() { err = w.ng.IncreaseSize(int64(m)) })
		att, term := w.attachAlgebra("C18", mark)
		verifAssert("C18.nothing-leaked", att+term == len(w.EC2.Fleet))
		if err != nil || fatal {
			consecutive++
		} else {
			consecutive = 0
		}
		if fatal {
			exited = true
			verifReach("C18.gave-up-after-consecutive-failures")
			verifAssert("C18.gives-up-only-after-three-failures", consecutive >= 3)
		} else if failure != 2 && att < len(w.EC2.Fleet) {
			verifAssert("C18.failure-reported", err != nil)
		}
		if delivered < m {
			verifReach("C18.partial-fill")
		}
	}
}
