#!/usr/bin/env python3
# Round N (default 3): collects confirmed seeded changes from /tmp/seed<N>/<id>/_seed into /verif/seeded/<id>-R<N><X>/
# usage: tools_collect_seeds3.py [round] ; reads /tmp/eval_r<N>.log (first run) and tools_seed_notes_r<N>.json (strengthening notes)
import json, os, re, shutil, glob, sys
R = int(sys.argv[1]) if len(sys.argv) > 1 else 3
logs = open(f'/tmp/eval_r{R}.log').read()
first, cur = {}, None
for line in logs.split('\n'):
    m = re.match(r'=== (C\d+) ([AB])', line)
    if m: cur = (m.group(1), m.group(2)); continue
    m = re.match(r'check (C\d+): rc=(\d+) (\d+)s viol=(\d+) incon=(\d+)', line)
    if m and cur and m.group(1) == cur[0] and cur not in first:
        first[cur] = {'check': m.group(1), 'exit': int(m.group(2)), 'violations': int(m.group(4)), 'seconds': int(m.group(3))}
notes = json.load(open(f'/verif/tools_seed_notes_r{R}.json'))
strengthen = {tuple(k.split('-')): v for k, v in notes['strengthen'].items()}
not_caught = set(tuple(k.split('-')) for k in notes.get('not_caught', []))
recheck = {k: {'check': k[0], 'exit': 1} for k in strengthen if k not in not_caught}
for d in sorted(glob.glob(f'/tmp/seed{R}/C[0-9][0-9]')):
    p = os.path.basename(d); sd = d + '/_seed'
    try: meta = json.load(open(sd + '/SEED_meta.json'))
    except Exception: continue
    for x in 'AB':
        if not os.path.exists(f'{sd}/SEED_{x}.diff'): continue
        out = f'/verif/seeded/{p}-R{R}{x}'
        os.makedirs(out, exist_ok=True)
        shutil.copy(f'{sd}/SEED_{x}.diff', out + '/patch.diff')
        shutil.copy(f'{sd}/SEED_{x}_demo_test.go', out + '/demo_test.go.txt')
        m = meta.get(x, {})
        f0, f1 = first.get((p, x)), recheck.get((p, x))
        final = f1 or f0
        rec = {'property': p, 'round': R, 'summary': m.get('summary'), 'needs_to_manifest': m.get('needs_to_manifest'),
               'files_changed': m.get('files_changed'),
               'demo': {'file': 'demo_test.go.txt (first line names the path to place it at)', 'cmd': m.get('demo_cmd')},
               'confirmed_by_me': 'in a scratch worktree of /repo: demo passes on the original; with patch.diff applied go build ./... and the full suite pass and the demo fails (tools_eval_seed.sh)',
               'what_i_ran': f'git apply patch.diff in the scratch worktree; VERIF_REPO=<worktree> ./check {p} quick; git checkout -- .',
               'first_run': f0, 'after_strengthening': f1, 'detected': bool(final and final['exit'] == 1), 'detected_by_other_check': []}
        if (p, x) in strengthen: rec['strengthening'] = strengthen[(p, x)]
        json.dump(rec, open(out + '/meta.json', 'w'), indent=1)
        print(p, x, (f0 or {}).get('exit'), (f1 or {}).get('exit'))
