#!/usr/bin/env python3
# regenerates DESIGN.md §8 from /verif/seeded/*/meta.json
import json,glob,os
rows={k:[] for k in range(1,9)}
stats={k:[0,0,0] for k in range(1,9)}
for d in sorted(glob.glob('/verif/seeded/*/meta.json')):
    m=json.load(open(d)); name=os.path.basename(os.path.dirname(d)); rnd=m.get('round',1)
    f0=m['first_run']
    first='caught' if f0 and f0['exit']==1 else ('inconclusive' if f0 and f0['exit']==2 else 'missed')
    now='caught' if m['detected'] else ('caught by '+','.join(m['detected_by_other_check']) if m.get('detected_by_other_check') else 'not caught')
    stats[rnd][0]+=1; stats[rnd][1]+= first=='caught'; stats[rnd][2]+= now!='not caught'
    summ=(m['summary'] or '').replace('|','/').replace('\n',' ')
    summ=summ[:160]+('…' if len(summ)>160 else '')
    rows[rnd].append(f"| {name} | {summ} | {first} | {now} | {m.get('strengthening','')} |")
hdr="| seed | change | first run | now | what was strengthened |\n|---|---|---|---|---|\n"
md = "\n## 8. Seeded changes (independent sub-agents, one scratch worktree each, given only the property text)\n\n" \
 "Eight rounds of forty changes (two per property and round) that compile, keep the 320 tests green and break the property. Each\n" \
 "was confirmed in a scratch worktree (demo passes on the original; suite passes and demo fails with the change) and then checked\n" \
 "with `VERIF_REPO=<worktree> ./check <id> quick`. `/verif/seeded/<id>-<X>/` (round 1) and `/verif/seeded/<id>-R<n><X>/` (rounds 2-8)\n" \
 "hold `patch.diff`, the demonstration (`demo_test.go.txt`) and `meta.json`. *First run* = the checks as they stood when the\n" \
 "change arrived. The misses were used to strengthen harnesses and engine (last column); round 2 was produced after the round-1\n" \
 "strengthening and again found gaps, mostly *state carried between scans* and *failure paths*, which led to the prior-scan /\n" \
 "chain shapes. All checks stay quiet on the unchanged tree after every strengthening.\n\n" \
 f"Round 1: {stats[1][1]} of {stats[1][0]} caught on first run, {stats[1][2]} after strengthening.  \n" \
 f"Round 2: {stats[2][1]} of {stats[2][0]} caught on first run, {stats[2][2]} after strengthening; the one left (C16-R2B) is in the YAML/JSON\n" \
 "decoding path, the part of C16 this technique cannot reach (§5).  \n" \
 f"Round 3: {stats[3][1]} of {stats[3][0]} caught on first run, {stats[3][2]} after strengthening.  \n" \
 f"Round 4 (sub-agents were asked to prefer easily overlooked mechanisms: cached state, fleet mode, dry mode, several groups, auto-discovery, partial failures): {stats[4][1]} of {stats[4][0]} caught on first run, {stats[4][2]} after strengthening.  \n" \
 f"Round 5 (asked to prefer the last sentence / subordinate clauses of a statement, helper code and wiring, effects of the second or third scan, legal extremes): {stats[5][1]} of {stats[5][0]} caught on first run, {stats[5][2]} after strengthening.  \n" \
 f"Round 6 (sub-agents were told that a bounded checker with up to 3 nodes, 2 pods, 2 groups, 2 scans, single generic API failures and small option values guards the project, and asked to stay outside it: more objects or scans, specific error kinds, specific strings, large quantities, slowly accumulating state): {stats[6][1]} of {stats[6][0]} caught on first run, {stats[6][2]} after strengthening (C16-R6B is in the decoding path).  \n" \
 f"Round 7 (the prompt listed everything the checks explored by then and asked for something else: order of API answers, string-typed options, long time spans, three features at once, the two cloud code paths): {stats[7][1]} of {stats[7][0]} caught on first run, {stats[7][2]} after strengthening (two of them by another property's check); left: time-zone formatting (C08-R7A, unsupported by the time model and reported as such), a guard on the scan's wall-clock duration (C12-R7A).  \n" \
 f"Round 8 (asked for clauses nobody tests, interactions with seemingly unrelated features, rare configuration values, off-by-ones at 20/21/1000): {stats[8][1]} of {stats[8][0]} caught on first run, {stats[8][2]} after strengthening; see the table for what is left.\n\n" \
 "### Round 1\n\n"+hdr+"\n".join(rows[1])+"\n\n### Round 2\n\n"+hdr+"\n".join(rows[2])+"\n\n### Round 3\n\n"+hdr+"\n".join(rows[3])+"\n\n### Round 4\n\n"+hdr+"\n".join(rows[4])+"\n\n### Round 5\n\n"+hdr+"\n".join(rows[5])+"\n\n### Round 6\n\n"+hdr+"\n".join(rows[6])+"\n\n### Round 7\n\n"+hdr+"\n".join(rows[7])+"\n\n### Round 8\n\n"+hdr+"\n".join(rows[8])+"\n"
s=open('/verif/DESIGN.md').read()
i=s.find('\n## 8. Seeded changes')
if i>=0: s=s[:i]
open('/verif/DESIGN.md','w').write(s.rstrip('\n')+'\n'+md)
print(stats)
