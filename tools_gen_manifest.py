#!/usr/bin/env python3
# regenerates MANIFEST.json from harness/registry.json and the per-property notes below
import json
reg = json.load(open('/verif/harness/registry.json'))
texts = {
 'C01': ("one scan of the real RunOnce (filterNodes, reaper, force reaper, TryDeleteNodes, aws.DeleteNodes, k8s.DeleteNodes) executed symbolically from an arbitrary cluster snapshot; every journalled TerminateInstanceInAutoScalingGroup / DELETE node is an SMT query against the statement's condition; restart = freshly built controller; shapes with an earlier scan of the same controller (pod map, group over max_nodes) and pods of five kinds", "§3 C01"),
 'C02': ("two RunOnce calls of one controller with a symbolic gap; scan 1 arms (or not) the real scale lock through ScaleUp; scan 2 meets an arbitrary cluster; no-activity-inside / acts-again-after are SMT queries over the gap; the acceptance instant is read inside the fake cloud, so the in-cool-down premise is exact; three-scan chains, scan-1 variants (refused, covered by untainting), auto-discovered limits edited between scans", "§3 C02"),
 'C03': ("scan-level symbolic execution with min/max (incl. auto-discovered), rates, cordon flags and requests symbolic; taint count against untainted-min and the below-minimum recovery are SMT queries; shapes with an earlier scan, with the controller built by the real NewController, and with a flaky cloud (every other describe call fails)", "§3 C03"),
 'C04': ("scan-level symbolic execution with max_nodes, cloud max, desired and requests independent symbolic integers; every SetDesiredCapacity argument is checked against min(max_nodes, cloud max) and clamped requests must land on it; launch-template mode (what the attach calls add up to), describe calls down after an earlier scale-up, typed cloud errors", "§3 C04"),
 'C05': ("symbolic execution of calcPercentUsage + calcScaleUpDelta; float64 over-approximated by per-operation error terms, oracle in exact integers; unsat for every request total within the shape; scan-level shapes incl. scale-up from zero along histories (node size changed, observing scan refused), 64 TiB nodes", "§3 C05"),
 'C06': ("scan-level symbolic execution; the band oracle is recomputed in exact integer arithmetic from the pre-scan snapshot, with thresholds, rates, min_nodes and requests symbolic/forked; the optional triggers carry necessary conditions (a truly unschedulable pod / an untainted node past the age limit)", "§3 C06"),
 'C07': ("scan-level symbolic execution with the real AWS provider over a stateful simulated ASG whose desired capacity at call time is journalled; creation times symbolic; failed writes injected, unreachable nodes, API outage mid-scan, all taint effects, doubly tainted nodes", "§3 C07"),
 'C08': ("scan-level symbolic execution through the real sort.Sort with symbolic creation times (every order, ties, zero value) and injected get/update failures; dry mode (tracker as the set of tainted nodes), empty/shared provider ids, sibling-key taints, nodes listed out of age order with the oldest unreachable", "§3 C08"),
 'C09': ("scan-level symbolic execution with a symbolic cordon flag on nodes of every class; no journalled call may target a node whose flag is true; band decisions recomputed without cordoned capacity; max_node_age rotation, a cordon racing with escalator's write, Terminating instances still listed", "§3 C09"),
 'C10': ("scan-level symbolic execution with annotation/class/age symbolic; protected nodes never removed, eligible siblings still removed, annotated nodes still tainted", "§3 C10"),
 'C11': ("two symbolic runs of the same two-group world (A dry / A not dry): A's journal must be empty, B's journals must be equal call by call; tracked nodes with real (also unreadable) taints; one shape assembled by the real NewController", "§3 C11"),
 'C12': ("two symbolic runs (group A arbitrary / group A empty) with shared group-B inputs: B's journals must be equal call by call; A exercises non-fatal failures; a group without nodes and pods gets no calls; cmd.setupCloudProvider hands each group its own name, cloud group and AWS settings", "§3 C12"),
 'C13': ("symbolic execution of ComputePodResourceRequest / CalculatePodsRequestedUsage / CalculateNodesCapacity / calcPercentUsage against the definition written independently in the harness; values symbolic, presence and map order forked; pod phase, sidecar init containers, node readiness and status.capacity are free and must not matter; scan-level band oracle with garbage taints and terminating pods", "§3 C13"),
 'C14': ("the pod / default / node filter functions executed on every pod shape of a small-scope universe (forks enumerated by the solver) against the statement's predicate written independently; plus the listers the real NewClient builds for default and a labelled group in either configuration order", "§3 C14"),
 'C15': ("symbolic execution of AddToBeRemovedTaint / DeleteToBeRemovedTaint over a recording client: the PUT body is diffed against the fetched node; taint slot, effect, faults forked; clock symbolic; conflicts with a concurrent writer that adds and removes taints", "§3 C15"),
 'C16': ("symbolic execution of ValidateNodeGroup with one (quick) or two (thorough) option groups unconstrained; accepted implies the statement's invariants is an SMT query; plus cmd.setupNodeGroups over files of up to three groups: the process goes on iff every group is safe (log.Fatal observed as an exit)", "§3 C16"),
 'C17': ("symbolic execution of IncreaseSize (SetDesiredCapacity and fleet paths) over a recording simulated AWS; desired/max/d symbolic; attach batches checked by set algebra; rejected requests make no write (tags included); sequences after deletions; fleets that under- or over-deliver", "§3 C17"),
 'C18': ("symbolic execution of the fleet path with the failing attach call index symbolic (every k) and the failure kind forked; attach/terminate set algebra against the acquired ids; plus a two-scan check that no lock is taken; histories of up to four attempts on one node-group object (the give-up exit observed), typed AWS errors, persistent attach failures, partial fills", "§3 C18"),
 'C19': ("symbolic execution of DeleteNodes (min, desired, membership, failing call forked/symbolic) and of a reaping scan for the k8s-after-cloud ordering and the fatal not-in-group error; histories (membership change at equal size, earlier batch failed midway, Terminating instance still listed), batches of 51-101 nodes, the real RunForever loop", "§3 C19"),
 'C20': ("scan-level symbolic execution over oddly shaped objects with every fake API call allowed to fail within a budget; a path ending in a Go panic is a violation (replayed natively); second fault-free scan; dry-mode variants; the real main loop RunForever with ticker, stop channel and failures; triggers on groups without untainted nodes; doubly tainted nodes", "§3 C20"),
}
notes = {
 'C16': "YAML/JSON decode equivalence is NOT claimed (reflection-driven decoder, outside the executor's reach); trusted: go/ssa, time.ParseDuration bridged natively on concrete strings, z3",
}
checks = []
for p in sorted(k for k in reg if k.startswith('C')):
    t, ref = texts[p]
    spec = reg[p]
    note = "bounded: " + spec.get('bounds','') + ". trusted base: go/ssa construction, the engine's environment model (time, resource.Quantity int64 form, logging/metrics as no-ops, fmt/strconv/strings bridged natively on concrete values, select over modelled timers), simulated AWS/Kubernetes fakes in /verif/harness, z3 5.1.0; float64 over-approximated (sat answers replayed natively before being reported)."
    if p in notes: note = notes[p] + ". " + note
    checks.append({
        "property_id": p,
        "quick_cmd": f"./check {p} quick",
        "thorough_cmd": f"./check {p} thorough",
        "evidence_file": f"/verif/evidence/{p}.json",
        "replay_cmd_template": "./check replay {path}",
        "engine": "gosymex",
        "level_claimed": {"category": "model_checking",
            "text": t + ". Bounded claim: no counterexample for any value of the symbolic inputs within the registered shapes; nothing is claimed outside them.",
            "design_ref": "DESIGN.md " + ref},
        "level_note": note,
        "technique": "symbolic execution of the real Go SSA + SMT (z3, linear Int/Real), re-execution DFS over decision prefixes, native replay of every counterexample",
    })
m = {
 "version": 1,
 "setup_cmd": "./check setup",
 "hooks": {
  "guard": "verif",
  "enable": "harness files under /verif/harness carry //go:build verif and are injected into /repo's packages by overlay (go/packages Overlay for the symbolic run; go test -tags verif -overlay for native replay). /repo carries no hook code: source_commits is empty",
  "baseline_off_cmd": "cd /repo && GOFLAGS=-mod=mod GOPROXY=off GOSUMDB=off go test -vet=off -count=1 ./...",
  "source_commits": [],
  "add_only": True
 },
 "engines": [{"name": "gosymex", "path": "/verif/engine", "serves_properties": sorted(k for k in reg if k.startswith("C")), "kind_free_text": "symbolic executor for Go SSA (fork of golang.org/x/tools/go/ssa/interp v0.29.0) with SMT back end (z3 5.1.0 via one long-lived process per worker, push/pop); counterexamples are replayed against the natively compiled real code before being reported"}],
 "checks": checks,
 "not_applicable": [],
 "notes": "Every property is decided by the same technique (solver-based checking of the real code). Parts of statements that the technique cannot reach are listed per property in level_note / evidence outside_claim (notably C16's YAML/JSON decode equivalence). Genuine defects found: see /verif/known_findings.json and DESIGN.md §4."
}
json.dump(m, open('/verif/MANIFEST.json','w'), indent=1)
print("checks:", len(checks))
