#!/bin/bash
# tools_eval_seed.sh <worktree> <A|B> <prop> [more props...]
# Confirms a seeded change (suite passes with it, demo fails with it, demo passes without),
# then runs the given properties' quick checks against the worktree with the change applied.
set -u
wt="$1"; x="$2"; shift; shift
export GOFLAGS=-mod=mod GOPROXY=off GOSUMDB=off GOTOOLCHAIN=local
cd "$wt" || exit 2
git checkout -q -- . ; git clean -fdq -- pkg cmd 2>/dev/null
mkdir -p _seed; for f in SEED_*; do [ -e "$f" ] && mv "$f" _seed/; done
cd _seed; ln -sf ../pkg pkg 2>/dev/null; cd ..
S=_seed
demo_path=$(head -1 $S/SEED_${x}_demo_test.go | sed -n 's|.*place at: *||p' | tr -d '\r ')
[ -z "$demo_path" ] && { echo "no demo path"; exit 2; }
run_name=$(grep -o 'func Test[A-Za-z0-9_]*' $S/SEED_${x}_demo_test.go | head -1 | sed 's/func //')
pkgdir=$(dirname "$demo_path")
# 1. demo passes on the original
cp $S/SEED_${x}_demo_test.go "$demo_path"
if go test -vet=off -count=1 -run "^${run_name}\$" ./$pkgdir/ >/tmp/seed_eval_orig.log 2>&1; then echo "demo-on-original: PASS (ok)"; else echo "demo-on-original: FAIL (bad seed)"; tail -5 /tmp/seed_eval_orig.log; fi
rm -f "$demo_path"
# 2. apply
if ! git apply $S/SEED_${x}.diff; then echo "patch does not apply"; exit 2; fi
if go build ./... >/tmp/seed_eval_build.log 2>&1 && go test -vet=off -count=1 ./... >/tmp/seed_eval_suite.log 2>&1; then echo "suite-with-change: PASS (ok)"; else echo "suite-with-change: FAIL (bad seed)"; tail -5 /tmp/seed_eval_suite.log /tmp/seed_eval_build.log; fi
cp $S/SEED_${x}_demo_test.go "$demo_path"
if go test -vet=off -count=1 -run "^${run_name}\$" ./$pkgdir/ >/tmp/seed_eval_demo.log 2>&1; then echo "demo-with-change: PASS (bad seed: demo does not fail)"; else echo "demo-with-change: FAIL (ok)"; fi
rm -f "$demo_path"
# 3. checks
for p in "$@"; do
  s=$(date +%s)
  out=$(cd /verif && VERIF_REPO="$wt" ./check "$p" quick -no-evidence 2>/dev/null)
  rc=$?
  e=$(date +%s)
  echo "check $p: rc=$rc $((e-s))s viol=$(echo "$out" | grep -c '^VIOLATION') incon=$(echo "$out" | grep -c '^INCONCLUSIVE') vac=$(echo "$out" | grep -c '^VACUOUS\|^ENGINE')"
  echo "$out" | grep '^VIOLATION\|^INCONCLUSIVE\|^VACUOUS\|^ENGINE' | head -6 | sed 's/^/    /'
done
git checkout -q -- . ; git clean -fdq -- pkg cmd 2>/dev/null
