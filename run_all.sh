#!/bin/bash
# run every registered check at the given tier; print one line per property
tier="${1:-quick}"
cd "$(dirname "$0")"
for p in $(python3 -c "import json; print(' '.join(k for k in sorted(json.load(open('harness/registry.json'))) if k.startswith('C')))"); do
  s=$(date +%s)
  out=$(./check "$p" "$tier" 2>/dev/null)
  rc=$?
  e=$(date +%s)
  echo "$p rc=$rc $((e-s))s $(echo "$out" | grep -c '^VIOLATION') viol; $(echo "$out" | grep -c '^INCONCLUSIVE') incon; $(echo "$out" | grep -c '^VACUOUS\|^ENGINE') vac; $(echo "$out" | grep '^SUMMARY' | sed 's/SUMMARY //')"
  echo "$out" | grep '^VIOLATION\|^INCONCLUSIVE\|^VACUOUS\|^ENGINE\|^KNOWN\|^NOTE' | sed 's/^/    /'
done
