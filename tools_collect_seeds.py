#!/usr/bin/env python3
# Collects confirmed seeded changes from /tmp/seed/<id>/ into /verif/seeded/<id>-<X>/
import json, os, re, shutil, glob
logs = ''.join(open(f).read() for f in sorted(glob.glob('/tmp/eval_wave*.log')))
first = {}   # (prop,x) -> first evaluation of its own check
later = {}
others = {}
cur = None
for line in logs.split('\n'):
    m = re.match(r'=== (C\d+) ([AB])', line)
    if m: cur = (m.group(1), m.group(2)); continue
    m = re.match(r'check (C\d+): rc=(\d+) (\d+)s viol=(\d+) incon=(\d+)', line)
    if m and cur:
        p, rc, secs, viol = m.group(1), int(m.group(2)), int(m.group(3)), int(m.group(4))
        if rc == 2 and secs == 0: continue  # engine being rebuilt at that moment
        rec = {'check': p, 'exit': rc, 'violations': viol, 'seconds': secs}
        if p == cur[0]:
            if cur not in first: first[cur] = rec
            else: later[cur] = rec
        else:
            others.setdefault(cur, []).append(rec)
# manual: C11-A re-evaluated interactively after the hasPod choice was added
later[('C11','A')] = {'check':'C11','exit':1,'violations':2,'seconds':41}
later[('C07','B')] = {'check':'C07','exit':1,'violations':1,'seconds':29}  # re-run interactively after the diverse-model change
strengthen = {
 ('C01','B'): "C01 taint ages widened to far-future values, oracle uses the time package's saturating Sub; engine models two's-complement wrap-around",
 ('C07','B'): "engine now asks for diverse models per failing path (the first model sat on an exact float edge that the native run resolves the other way)",
 ('C08','B'): "C08 harness gained the no-delete annotation choice",
 ('C09','B'): "C09 pods may sit on (cordoned) nodes",
 ('C10','B'): "C10 annotation values 'false' and '0' added",
 ('C11','A'): "C11 group A's pod may sit on a node or be absent, so the reaper is reached with a tracked, really tainted, expired node",
 ('C12','A'): "C12 compares group A's journal with/without group B as well, and B's pod may select B through required node affinity with a NotIn on A's value",
 ('C12','B'): "caught by C20 (post-cool-down lookup failure); C12's world has no post-cool-down scan",
 ('C13','A'): "C13 quick tier gained a shape with two init containers",
 ('C13','B'): "C13 percent gained a 128 TiB capacity shape; engine models int64 wrap-around",
 ('C15','B'): "engine bug fixed: append/copy shared struct boxes between slices, which hid in-place damage to the fetched node from the oracle",
 ('C17','A'): "C17 gained a DeleteNodes-then-IncreaseSize harness",
 ('C20','A'): "C20 pods gained partial affinity shapes (empty Affinity, empty NodeAffinity, preferred only)",
}
os.makedirs('/verif/seeded', exist_ok=True)
rows = []
for d in sorted(glob.glob('/tmp/seed/C[0-9][0-9]')):
    p = os.path.basename(d)
    sd = d + '/_seed' if os.path.isdir(d + '/_seed') else d
    try: meta = json.load(open(sd + '/SEED_meta.json'))
    except Exception: continue
    for x in 'AB':
        if not os.path.exists(f'{sd}/SEED_{x}.diff'): continue
        out = f'/verif/seeded/{p}-{x}'
        os.makedirs(out, exist_ok=True)
        shutil.copy(f'{sd}/SEED_{x}.diff', out + '/patch.diff')
        # go would try to compile a *_test.go lying around: keep it as .txt
        shutil.copy(f'{sd}/SEED_{x}_demo_test.go', out + '/demo_test.go.txt')
        m = meta.get(x, {})
        f0, f1 = first.get((p, x)), later.get((p, x))
        final = f1 or f0
        rec = {
            'property': p,
            'summary': m.get('summary'),
            'needs_to_manifest': m.get('needs_to_manifest'),
            'files_changed': m.get('files_changed'),
            'demo': {'file': 'demo_test.go.txt (first line names the path to place it at)', 'cmd': m.get('demo_cmd')},
            'confirmed_by_me': 'in a scratch worktree of /repo (HEAD with the fix: commits): demo passes on the original; with patch.diff applied go build ./... and the full suite pass and the demo fails (tools_eval_seed.sh)',
            'what_i_ran': f'git apply patch.diff in the scratch worktree; VERIF_REPO=<worktree> ./check {p} quick; git checkout -- .',
            'first_run': f0, 'after_strengthening': f1,
            'detected': bool(final and final['exit'] == 1),
            'detected_by_other_check': [q['check'] for q in others.get((p, x), []) if q['exit'] == 1],
            'other_checks_run': others.get((p, x), []),
        }
        if (p, x) in strengthen: rec['strengthening'] = strengthen[(p, x)]
        json.dump(rec, open(out + '/meta.json', 'w'), indent=1)
        rows.append((p, x, f0, f1, others.get((p,x), []), m.get('summary','')))
for r in rows:
    p,x,f0,f1,o,s = r
    print(p, x, 'first:', (f0 or {}).get('exit'), 'later:', (f1 or {}).get('exit'), 'others:', [(q['check'],q['exit']) for q in o], '|', (s or '')[:90])
