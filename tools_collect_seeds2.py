#!/usr/bin/env python3
# Round 2: collects confirmed seeded changes from /tmp/seed2/<id>/_seed into /verif/seeded/<id>-R2<X>/
import json, os, re, shutil, glob
logs = open('/tmp/eval_r2.log').read()
first = {}
cur = None
for line in logs.split('\n'):
    m = re.match(r'=== (C\d+) ([AB])', line)
    if m: cur = (m.group(1), m.group(2)); continue
    m = re.match(r'check (C\d+): rc=(\d+) (\d+)s viol=(\d+) incon=(\d+)', line)
    if m and cur and m.group(1) == cur[0] and cur not in first:
        first[cur] = {'check': m.group(1), 'exit': int(m.group(2)), 'violations': int(m.group(4)), 'seconds': int(m.group(3))}
strengthen = {
 ('C02','A'): "new three-scan harness C02_chain: every accepted scale-up (also one requested through the below-minimum branch after an earlier cool-down expired) must be cooled down",
 ('C02','B'): "C02_chain variant 1: the cloud refresh of a scan inside the cool-down fails once (5 s retry sleep, provider rebuilt) and the lock must survive",
 ('C03','B'): "C03 gained a prior-scan shape: an earlier scan of the same controller, then the cloud group's min/max change (auto-discovery must follow)",
 ('C04','B'): "C04 gained a prior-scale-up shape: a small accepted scale-up, cool-down elapses, then the cloud maximum is lowered",
 ('C05','A'): "C05_scan mode 3: the node size changes between two earlier scans before the group drains to zero",
 ('C05','B'): "C05_scan with a failure budget: a rejected untaint write must not count as capacity",
 ('C06','B'): "C06 memory-bound shape (memory requests symbolic, CPU small)",
 ('C10','B'): "C10 with a failure budget (a failed node GET must not unprotect an annotated node)",
 ('C12','A'): "C12 group A may hold nodes whose instance is detached from its cloud group (force-removal path returning not-in-group must not stop later groups)",
 ('C14','B'): "new C14_lister harness: two listings through the real group listers with the pod re-created under the same name",
 ('C15','B'): "C15_delete with a 409 Conflict and a concurrent writer; engine can now classify apierrors (StatusError read directly instead of errors.As)",
 ('C19','B'): "C19_scan frees fast_node_removal_rate (the reaper's batching must not depend on it)",
 ('C16','B'): "NOT caught: the change is in the YAML/JSON decoding path (reflection-driven), the part of C16 declared not applicable to this technique",
}
recheck = {k: {'check': k[0], 'exit': 1} for k in strengthen if k != ('C16','B')}
os.makedirs('/verif/seeded', exist_ok=True)
for d in sorted(glob.glob('/tmp/seed2/C[0-9][0-9]')):
    p = os.path.basename(d); sd = d + '/_seed'
    try: meta = json.load(open(sd + '/SEED_meta.json'))
    except Exception: continue
    for x in 'AB':
        if not os.path.exists(f'{sd}/SEED_{x}.diff'): continue
        out = f'/verif/seeded/{p}-R2{x}'
        os.makedirs(out, exist_ok=True)
        shutil.copy(f'{sd}/SEED_{x}.diff', out + '/patch.diff')
        shutil.copy(f'{sd}/SEED_{x}_demo_test.go', out + '/demo_test.go.txt')
        m = meta.get(x, {})
        f0, f1 = first.get((p, x)), recheck.get((p, x))
        final = f1 or f0
        rec = {'property': p, 'round': 2, 'summary': m.get('summary'), 'needs_to_manifest': m.get('needs_to_manifest'),
               'files_changed': m.get('files_changed'),
               'demo': {'file': 'demo_test.go.txt (first line names the path to place it at)', 'cmd': m.get('demo_cmd')},
               'confirmed_by_me': 'in a scratch worktree of /repo: demo passes on the original; with patch.diff applied go build ./... and the full suite pass and the demo fails (tools_eval_seed.sh)',
               'what_i_ran': f'git apply patch.diff in the scratch worktree; VERIF_REPO=<worktree> ./check {p} quick; git checkout -- .',
               'first_run': f0, 'after_strengthening': f1, 'detected': bool(final and final['exit'] == 1), 'detected_by_other_check': []}
        if (p, x) in strengthen: rec['strengthening'] = strengthen[(p, x)]
        json.dump(rec, open(out + '/meta.json', 'w'), indent=1)
        print(p, x, (f0 or {}).get('exit'), (f1 or {}).get('exit'))
